HOOK_COMMITS = ["246a048", "980d1ce", "4bc6d09", "930c4c9", "0b0f274", "c35b2c3"]

WIP = "check not built yet in this round (work in progress, see DESIGN.md section 3)"
NOT_APPLICABLE = {("C%02d" % i): WIP for i in range(1, 20)}

CLAIMS = {
    "C04": dict(
        text="Random rule sets (tens of thousands per run) plus an exhaustively enumerated sub-space are fed to the real map builder; every emitted match file is evaluated with HAProxy's str/dir/beg semantics for every request path of a closed alphabet and compared with the documented winner (exact, else longest declared; ties either). Bounded exploration: it shows absence of violations only on the generated sets.",
        design_ref="DESIGN.md section 3, C04",
        note="Trusts harness/hapcfg's implementation of map_str/map_dir/map_beg lookup semantics (taken from HAProxy's pattern.c) and the documented meaning of begin/prefix/exact; regex paths and wildcard hosts are outside the statement and not generated.",
        technique="property-based testing (rapid) against a reference model of documented path precedence + exhaustive small-scope enumeration",
    ),
    "C01": dict(
        text="Generated histories of batched events are run through the real watchers, tracker, converters and instance; the files written by the long-lived controller are reduced to a behavioural normal form (routing outcome and applicable rules for every request of an alphabet derived from the case, backend static lines, server multisets, certificate per SNI) and compared with a fresh controller's on the final cluster state. Bounded exploration with measured class distribution; defects found were repaired in /repo or recorded.",
        design_ref="DESIGN.md section 3, C01; section 2.5 (normal form)",
        note="Trusts harness/hapcfg (evaluator of the emitted directive subset) and the in-memory API client standing in for the informer cache; requests for which the docs define no winner (same path declared with both non-exact types) are exempt; Gateway API objects and ConfigMap/Pod events are exercised by other checks.",
        technique="stateful property-based testing (rapid): metamorphic differential, incremental history vs fresh full sync, on a behavioural normal form",
    ),
    "C16": dict(
        text="Millions of group/replica/initial-weight vectors through the real RebalanceWeight against an exact-rational reference, plus blue/green and Gateway worlds through the whole controller reading the weights of the written server lines. Bounded random exploration of the stated domain (0..256 x 0..40 replicas x 1..256).",
        design_ref="DESIGN.md section 3, C16",
        note="The reference encodes the documented scale rule with an inclusive tolerance of one unit; blue/green label selectors use one label name; endpoint slices are not used by the new controller.",
        technique="property-based testing (rapid) against an exact rational reference model; pipeline differential on written weights",
    ),
    "C05": dict(
        text="After every step of generated histories (shard counts 0/1/3/5, full and partial resyncs, emptied shards, reverted changes) the content of every file HAProxy would load is compared in both directions with the controller's current model: backends and servers exactly once, host rules, crt-list lines and userlists neither missing nor stale. A quarter of the batches meet a transient write or reload failure and are retried; the comparison runs after every update that succeeded. Two defects found this way were repaired in /repo.",
        design_ref="DESIGN.md section 3, C05",
        note="Files-versus-model bookkeeping only (converter tracking gaps are C01's business); the model is read through the exported accessors of haproxy.Config; parsing by harness/hapcfg.",
        technique="stateful property-based testing (rapid): invariant files == model after every step",
    ),
    "C03": dict(
        text="Generated cluster states are synced by the real controller; the written frontends, maps and backend sections are interpreted for every request of a derived alphabet and compared with an independent reference of the documented routing rules (host, then path precedence, first-created owner, HTTPS only with a tls entry, default host, default backend, 404) and of the Service/Endpoints resolution (ready servers, weight-0 draining servers only with drain-support).",
        design_ref="DESIGN.md section 3, C03; section 2.5 evaluator; 2.6 reference model",
        note="Trusts harness/hapcfg's evaluator (HAProxy semantics listed in the evidence assumptions) and the reference model written from the docs; requests with no documented winner accept either rule; terminating pods are covered by C11/C02 generators only.",
        technique="property-based testing (rapid): differential against a reference model of the documented routing, through an evaluator of the written configuration",
    ),
    "C07": dict(
        text="Feature-rich generated histories (auth of all kinds, TCP services, ssl-passthrough, blue/green, strict-host, dangling references) are synced by the real controller and every written configuration is linted for the reference-integrity conditions the statement lists; counts of each reference kind checked are reported.",
        design_ref="DESIGN.md section 3, C07",
        note="No HAProxy binary is available: loadability is the reference-integrity definition of the statement, implemented in harness/hapcfg/lint.go; one recorded finding (strict-host fallback backend) is excluded from histories by construction.",
        technique="stateful property-based testing (rapid): structural invariant (reference integrity linter) over every written configuration",
    ),
    "C18": dict(
        text="Generated worlds with every kind of auth-url / oauth declaration (usable and unusable) are synced by the real controller and every request that the documented routing sends to a protected path is evaluated through the written http-request rules with the auth response unset: it must end in deny/redirect, preceded by the interception when the declaration is usable. 40% of the cases continue with a short history (the auth-proxy port bookkeeping is carried from sync to sync) and are evaluated after every batch. Two known findings on frontend placement are matched by precise signatures; anything else is reported. For oauth the interception must go to a backend of the declaring namespace; for auth-url svc://name:port the helper backend is followed through the auth proxy frontend to the backend it ends in, which must belong to the declared Service of the declaring namespace; IngressClass Parameters that carry an auth-url protect every ingress of the class.",
        design_ref="DESIGN.md section 3, C18",
        note="Trusts harness/hapcfg's rule evaluator and the reference routing model; Lua's auth-request behaviour is reduced to 'txn.auth_response_successful is unset for an unauthenticated client'.",
        technique="property-based testing (rapid): oracle = evaluation of the written access rules for requests routed to protected paths (fail-closed), two-sided",
    ),
    "C08": dict(
        text="The 48-row class decision table is enumerated exhaustively against the real cache facade, and generated histories of class transitions are checked after every reconciliation: everything the written configuration routes must come from an Ingress the documented class rules select, and everything a selected Ingress declares must be routed. The two class switches are also given to the controller's own option handling (config.CreateWithConfig), with and without the deprecated --ignore-ingress-without-class.",
        design_ref="DESIGN.md section 3, C08",
        note="Decision table compared with a reference written from docs (keys.md 'Class matter', command-line 'ingress-class'); the legacy controller's copy of IsValidIngress is not exercised; routing read through harness/hapcfg.",
        technique="exhaustive enumeration of the decision table + stateful property-based testing (rapid) against a reference model of class selection and routing",
    ),
    "C15": dict(
        text="Generated histories of ingress TLS declarations and secret create/rotate/delete are run through the real controller and a simulated HAProxy; after every reconciliation the certificate the running process serves for every SNI of the alphabet is compared with the documented selection computed from the objects (first-created declaring ingress, else default; never another tenant's).",
        design_ref="DESIGN.md section 3, C15",
        note="Trusts simhap (reload loads the crt-list and PEM files; set/commit ssl cert replaces the PEM of a loaded file) and the SNI lookup order of HAProxy as implemented in hapcfg.SelectCert.",
        technique="stateful property-based testing (rapid) against a reference model of certificate selection, observed on a simulated HAProxy",
    ),
    "C09": dict(
        text="Metamorphic pairs of runs (a fresh sync, or the same short history of global ConfigMap changes and a partial re-parse) that differ only in a foreign-namespace object (present/absent, existing/dangling name) must produce identical behavioural normal forms whenever the reference's kind is denied, over every reference site, form, placement and allow/deny setting; allowed settings act as non-vacuity controls. Three bypasses found this way were repaired in /repo. Gateway API sites: the certificateRef of a listener and the optional namespace field of a backendRef.",
        design_ref="DESIGN.md section 3, C09",
        note="The finite case space (7 sites x forms x placements x 7^4 settings x CLI x relation x b-uses) is sampled, not enumerated; normal form by harness/hapcfg; reads of a foreign secret are observed through the PEM file the facade writes when it reads one.",
        technique="property-based testing (rapid): metamorphic relation between two worlds differing only in foreign-namespace objects",
    ),
    "C10": dict(
        text="Generated Gateway API worlds are synced by the real controller; an independent evaluation of the admission rules (class, parentRef group/kind/namespace/sectionName, allowedRoutes kinds and namespaces Same/All/Selector) gives the expected host/path -> backend table, per-backend servers with zero/non-zero weight and TCP ports, which must equal what the written maps, backend sections and TCP frontends say - in both directions. Matches with header conditions are requested with their headers and must reach their backend, judged where Gateway API precedence and the controller's lookup order agree.",
        design_ref="DESIGN.md section 3, C10",
        note="Reference written from the Gateway API rules and the documented limitations (listener hostname overrides, only Gateway parents); only http requests are routed; a third of the worlds run on a cluster that serves the Gateway API as v1beta1 only; v1alpha2 HTTPRoutes share the converter code and are not generated.",
        technique="property-based testing (rapid): differential against an independent reference evaluation of Gateway API admission",
    ),
    "C06": dict(
        text="Every generated conflict-rich cluster state is converted six times by fresh controller instances under permuted list orders, permuted event orders and repeated runs; any behavioural difference between two runs is a violation. Two order dependencies found were repaired in /repo, one (shared server-alias) is recorded.",
        design_ref="DESIGN.md section 3, C06",
        note="Detection of map-order dependence is probabilistic; the comparison is on the behavioural normal form so that textual differences without behaviour (priority map numbering) are not reported; Gateway routes are not part of the generated worlds.",
        technique="property-based testing (rapid): metamorphic relation (permuted inputs / repeated runs must give the same normal form)",
    ),
    "C02": dict(
        text="Generated histories of endpoint, weight, certificate and configuration changes, with fault plans over individual runtime commands, run against a simulated HAProxy behind real unix sockets; after every successful update the state of the running process is compared with the state obtained by loading the files just written (servers per slot, drain, preserved cookies, certificates). The use-server rules (blue/green header routing) of the configuration loaded by the running process are compared as well; DNS resolver backends are loaded as server-template slots.",
        design_ref="DESIGN.md section 3, C02; section 2.4 simhap",
        note="simhap's model of set server / set ssl cert / commit ssl cert / reload is the trusted base; real HAProxy is not available in the sandbox.",
        technique="stateful property-based testing (rapid) with fault injection: model-based comparison running state == load(files) after every step",
    ),
    "C11": dict(
        text="Generated histories of spurious re-notifications and in-capacity endpoint churn are run against the simulated HAProxy; the reload counter must not move for them, and every reload must leave the configured free-slot padding. An intermittent needless reload (map iteration order inside the path maps) found this way was repaired in /repo.",
        design_ref="DESIGN.md section 3, C11",
        note="'Fits in the existing slots' is decided with an upper bound of the endpoints the backend may need, so the oracle never demands a dynamic update the slots cannot hold; slots-min-free / increment are read from the controller's model of the backend.",
        technique="stateful property-based testing (rapid): invariant on the reload counter of a simulated HAProxy + slot-layout invariant after reloads",
    ),
    "C12": dict(
        text="Faults are injected at the observable boundaries of an update (each file written, each runtime command, the reload result) into generated histories; the real Reconcile is then retried with an empty batch, as its RequeueAfter does, and the result must converge to a fresh controller's files, to files that hold exactly the model (nothing stale in a shard or map HAProxy loads) and to a running HAProxy equal to the files. The defects this exposed (commit on every return path; shard files skipped by the retry) were repaired in /repo. A third of the cases run with the reload queue of --reload-interval: reloads are requested through the queue, run by the real Services.reloadHAProxy, and may wait in the queue while the next update (and its fault) is reconciled.",
        design_ref="DESIGN.md section 3, C12",
        note="Failure points are sampled (file chosen by index among the files written so far and the fixed names), not enumerated per history; simhap and hapcfg are the trusted base; uses the real IngressReconciler.Reconcile and Services.ReconcileIngress through verif hooks.",
        technique="stateful property-based testing (rapid) with fault injection: differential against a fresh controller after the retry",
    ),
    "C19": dict(
        text="Generated keyword lists and snippet texts (grammar over first tokens, whitespace forms, multi-line, CRLF, several annotations merging into one backend) go through the whole controller; the backend section written must drop every snippet with a disabled first token as a whole and keep every clean one verbatim, while global ConfigMap snippets stay. In a share of the cases the keyword list reaches the controller as the value of --disable-config-keywords, written with blanks around the commas, through the controller's own option handling (config.CreateWithConfig).",
        design_ref="DESIGN.md section 3, C19",
        note="The reference tokenisation is the documented one (first token after leading blanks and tabs); exotic separators accept both outcomes so the check cannot alarm on them.",
        technique="property-based testing (rapid): two-sided oracle (must-drop / must-keep) on the written backend section",
    ),
    "C17": dict(
        text="The signer's issue/skip/store decision is checked on generated certificate states against an independent reference (expiry window, SAN coverage, client outcomes); the acme work queue is checked on generated ingress histories through the real converters and AcmeUpdate: adds and removes per reconciliation must equal the difference of the storages the cluster asks for. A third part drives the real signer with generated sequences of AcmeAccount calls (two accounts, removal) against a local ACME account endpoint, with faults while the key is read or the account is requested: whenever the presented account can be loaded it must be, and a missing certificate then produces exactly one order. Two defects (domain added in place to a shared storage; an account presented again after a removal or a failed replacement never loaded) were repaired in /repo. A fourth part lets the real signer read secrets through the controller's own cache facade (real PEM parsing), with tls.crt holding the leaf alone or the leaf followed by its issuer: the decision must follow the leaf.",
        design_ref="DESIGN.md section 3, C17",
        note="The acme protocol client and the challenge server are outside for the signer and queue parts (client is a stub; the account part uses the real client against a minimal local ACME server: directory, nonce, account, refused orders); leader election is a stub flag; the hooked Services (real ReconcileIngress) is never leader, so acme histories run through ctlsim's mirror of ReconcileIngress.",
        technique="property-based testing (rapid): decision-table style oracle for the signer; stateful model (set difference of wanted storages) for the queue",
    ),
    "C13": dict(
        text="Generated arrival schedules exercise the real rate limiters at real instants; scheduled runs are derived with a small model of the delaying queue from bracketed When() calls and checked for minimum spacing, coalescing and bounded lateness; the real queues are then driven with the same schedules and checked one-sidedly (never early, never more runs, the last notification is served); a third part drives the controller's own enqueue sites (informer events of watchers that ask for partial and for full syncs, the leader subscriber) against the queue and limiter built the way SetupWithManager builds them, with a counting oracle in which requests of one kind that arrive while one is pending share its run. The reload limiter defect was repaired in /repo.",
        design_ref="DESIGN.md section 3, C13",
        note="Schedules are sampled at a few dozen millisecond scale; arbitrary preemption inside client-go's queue is not enumerated; verdicts are jitter-proof by construction (brackets, one-sided).",
        technique="property-based testing (rapid) over arrival schedules with a reference queue model and one-sided checks on the real queue",
    ),
    "C14": dict(
        text="Generated event sequences with interleaved batch swaps are delivered through the real watcher handlers; a sequential model of the batch under composition must match every batch handed out (exactly-once, order, ConfigMap chaining, class transitions as add/del). The same events are also delivered from several goroutines against a continuously swapping consumer under the race detector, checking conservation.",
        design_ref="DESIGN.md section 3, C14",
        note="Interleavings are not enumerated: the lock makes concurrent runs sequentially equivalent, the race detector and the conservation check guard the lock; failures of the concurrent part are schedule dependent and not shrinkable (the recorded case is saved as is).",
        technique="stateful property-based testing (rapid) against a sequential reference model + randomized concurrent stress under -race",
    ),
}
