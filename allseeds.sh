#!/bin/bash
# development aid: allseeds.sh <first seed> <n seeds> [tier] -- every check at several seeds on the current tree (evidence redirected)
S0=$1; N=$2; T=${3:-quick}
for i in $(seq 0 $((N-1))); do
  sd=$((S0+i))
  for p in C01 C02 C03 C04 C05 C06 C07 C08 C09 C10 C11 C12 C13 C14 C15 C16 C17 C18 C19; do
    VERIF_SEED=$sd VERIF_EVIDENCE_DIR=/tmp/x-evidence /verif/check $p --tier $T 2>&1 | grep -v "^KNOWN" | grep "detail\|$T:\|INCONCLUSIVE" | cut -c1-400 | sed "s/^/seed $sd: /"
  done
done
