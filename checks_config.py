"""Per-property run configuration of the driver (./check)."""

HAPCFG_ASSUMPTIONS = [
    "HAProxy map semantics as implemented in harness/hapcfg: map_str exact; map_beg longest prefix; map_dir first entry in file order matching at a / or ? boundary (pat_match_dir); map_reg first matching entry (Go RE2)",
    "http-request set-var leaves the variable untouched when its expression yields no sample; use_backend with an unresolvable dynamic name falls back to default_backend",
    "no '#' occurs in request paths (HAProxy rejects it in the URI by default)",
]

PROPS = {
    "C04": dict(
        rule="rule sets of 1..8 (thorough 12) host/path/type rules over 4 hosts x 12 paths (closed under prefix, sub-directory and case variants) x {exact,prefix,begin} x all 24 path-type orders, fed to the real HostsMaps builder; every emitted match file is evaluated for 28 request paths x each used host + one foreign host. Non-trivial = the set holds, on one host, two rules of different types whose paths are nested (case-insensitively); distinct by digest of the rule set.",
        assumptions=HAPCFG_ASSUMPTIONS[:1] + ["documented path matching: begin case-insensitive prefix, exact whole path, prefix whole segments with the trailing / ignored; when several matching non-exact rules share the longest declared length any of them may win"],
        quick=dict(runs=[dict(tests="^TestC04$", checks=20000), dict(tests="^TestC04Exhaustive$", checks=1)], min_nontrivial=1000),
        thorough=dict(runs=[dict(tests="^TestC04$", checks=150000, shards=8), dict(tests="^TestC04Exhaustive$", checks=1, timeout=3000)], min_nontrivial=10000),
    ),
}
