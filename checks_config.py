"""Per-property run configuration of the driver (./check)."""

HAPCFG_ASSUMPTIONS = [
    "HAProxy map semantics as implemented in harness/hapcfg: map_str exact; map_beg longest prefix; map_dir first entry in file order matching at a / or ? boundary (pat_match_dir); map_reg first matching entry (Go RE2)",
    "http-request set-var leaves the variable untouched when its expression yields no sample; use_backend with an unresolvable dynamic name falls back to default_backend",
    "no '#' occurs in request paths (HAProxy rejects it in the URI by default)",
]

PROPS = {
    "C04": dict(
        rule="rule sets of 1..8 (thorough 12) host/path/type rules over 4 hosts x 12 paths (closed under prefix, sub-directory and case variants) x {exact,prefix,begin} x all 24 path-type orders, fed to the real HostsMaps builder; every emitted match file is evaluated for 28 request paths x each used host + one foreign host. Non-trivial = the set holds, on one host, two rules of different types whose paths are nested (case-insensitively); distinct by digest of the rule set.",
        assumptions=HAPCFG_ASSUMPTIONS[:1] + ["documented path matching: begin case-insensitive prefix, exact whole path, prefix whole segments with the trailing / ignored; when several matching non-exact rules share the longest declared length any of them may win"],
        quick=dict(runs=[dict(tests="^TestC04$", checks=20000), dict(tests="^TestC04Exhaustive$", checks=1)], min_nontrivial=1000),
        thorough=dict(runs=[dict(tests="^TestC04$", checks=150000, shards=8), dict(tests="^TestC04Exhaustive$", checks=1, timeout=3000)], min_nontrivial=10000),
    ),
    "C01": dict(
        rule="histories: an initial cluster (2 namespaces, 1..5 ingresses over 3 hosts x 7 paths x 3 services per namespace, TLS secrets, classes by annotation/className/none/foreign/dangling, missing services/secrets/ports) followed by 1..5 (thorough 10) batches of 1..4 create/update/delete ops over Ingress, Service, Endpoints, Secret, IngressClass, delivered through the real watcher predicates (15% of multi-op batches with the API state ahead of the events); after the last batch (thorough: every batch) the behavioural normal form of the long-lived controller's files is compared with that of a fresh controller on the same cluster state. Non-trivial = some partial reconcile re-created hosts/backends AND the initial world has a host, backend or secret shared by >= 2 ingresses; distinct by digest of the whole history.",
        assumptions=HAPCFG_ASSUMPTIONS + ["metadata.generation is bumped on every spec change of every kind (otherwise the informer predicates drop the event in production too)", "SortEndpointsBy=random is not generated", "normal form ignores server slot names, empty slots, path ids, priority map-file numbering and unreachable leftovers, as the statement allows"],
        quick=dict(runs=[dict(tests="^TestC01$", checks=250)], min_nontrivial=30),
        thorough=dict(runs=[dict(tests="^TestC01$", checks=700, shards=16, timeout=3000)], min_nontrivial=1000),
    ),
    "C16": dict(
        rule="unit: 1..5 groups with weight 0..256 and 0..40 replicas (primes and zeros forced), initial-weight 1..256, through the real RebalanceWeight, checked against an exact rational model (range, zero iff configured zero, |w - exact| <= 1 or floor to 1, order preserved); pipeline: blue/green annotations (balance/deploy key, deploy/pod/default mode, labelled/unlabelled/not-ready pods, drain-support on/off) and Gateway HTTPRoute weighted backendRefs run through the whole controller, weights read from the written server lines. Non-trivial = at least two groups with non-zero weight and different replica counts; distinct by digest of the case.",
        assumptions=["documented scale: the smallest per-server weight equals initial-weight unless the largest would exceed 256, then the largest is 256 (Gateway base weight 128)", "truncation, rounding or ceiling of the exact value are all accepted (inclusive tolerance of 1)"],
        quick=dict(runs=[dict(tests="^TestC16$", checks=200000), dict(tests="^TestC16Pipeline$", checks=400)], min_nontrivial=1000),
        thorough=dict(runs=[dict(tests="^TestC16$", checks=3000000, shards=12), dict(tests="^TestC16Pipeline$", checks=3000, shards=4)], min_nontrivial=100000),
    ),
    "C05": dict(
        rule="C01-style histories with BackendShards in {0,1,3,5}, basic-auth userlists, a global ConfigMap whose changes force full resyncs, batches that delete every ingress and batches that change and revert one ingress; after every reconciliation the parsed *.cfg files (all of them, as haproxy -f <dir> loads), the referenced host map files, the crt-list and the userlists are compared with the instance's model through its exported accessors: every model backend exactly once with exactly its endpoints, every host rule exactly once, nothing that left the model. Non-trivial = shards > 0 and the history had a full resync after a partial one or deleted all ingresses; distinct by digest.",
        assumptions=["files not named *.cfg and map files the main cfg does not reference are not loaded by HAProxy and are ignored", "regex/wildcard map keys are not compared textually"],
        quick=dict(runs=[dict(tests="^TestC05$", checks=250)], min_nontrivial=10),
        thorough=dict(runs=[dict(tests="^TestC05$", checks=600, shards=16, timeout=3000)], min_nontrivial=300),
    ),
    "C03": dict(
        rule="fresh-sync worlds: 1..6 ingresses over 3 hosts (+ default host, spec.defaultBackend), 7 paths, all path types and the path-type annotation, named/numeric/missing service ports, missing services/endpoints/secrets, TLS blocks, drain-support on/off, --default-backend-service unset/valid/dangling, shards 0/2; every request of the alphabet (declared and one undeclared host, host:port and upper-case spellings, declared paths and neighbours, http and https) is routed by the evaluator of the written files and compared with the documented routing rules computed from the objects; the servers of each reached backend are compared with the ready / not-ready endpoints of the service port. Non-trivial = a host is shared by >= 2 ingresses or default-host rules exist; distinct by digest of the world.",
        assumptions=HAPCFG_ASSUMPTIONS + ["documented routing only: no regex paths, aliases, header matches, redirects, ssl-passthrough", "a rule whose service or port does not exist configures nothing and does not own its path", "in-backend redirects (ssl-redirect) are ignored: the observable is the routing destination"],
        quick=dict(runs=[dict(tests="^TestC03$", checks=400)], min_nontrivial=50),
        thorough=dict(runs=[dict(tests="^TestC03$", checks=2500, shards=16, timeout=3000)], min_nontrivial=5000),
    ),
    "C07": dict(
        rule="histories (0..4, thorough 8, batches) over feature-rich worlds: basic auth with shared/missing userlists, auth-url http/https/svc/malformed with both placements, oauth, ssl-passthrough (+http port), ingress- and ConfigMap-based TCP services, blue/green use-server, assign-backend-server-id, all server naming modes, cookie affinity, aliases, strict-host, auth-proxy ranges of size 1/2/85, missing services/secrets/ports, --default-backend-service valid/dangling; after every reconciliation the parsed configuration is linted: static and map-fed backend references, userlists, map/list/crt-list/certificate/CA files, unique section/server names and ids, path ids against the backend's id maps, auth-proxy binds and socket ids, bind addresses. Non-trivial = some configuration of the history held >= 4 kinds of references; distinct by digest.",
        assumptions=["no HAProxy binary exists in the sandbox: 'HAProxy would accept it' is the reference-integrity definition the statement spells out", "static lua-load / errorfile paths belong to the image and are not checked"],
        quick=dict(runs=[dict(tests="^TestC07$", checks=250)], min_nontrivial=30),
        thorough=dict(runs=[dict(tests="^TestC07$", checks=800, shards=16, timeout=3000)], min_nontrivial=1000),
    ),
    "C18": dict(
        rule="fresh-sync worlds whose ingresses carry auth bundles: auth-url drawn from well-formed http/https URLs, svc:// with existing/missing service, missing port, cross-namespace, malformed and unknown-protocol values, placement backend/frontend/default, oauth with and without a matching /oauth2 path, oauth together with auth-url, external-has-lua on/off, auth-proxy ranges of size 0/1/2/85; several paths per backend of which only some are protected. Every request of the alphabet whose documented winner is a protected rule is evaluated through the frontend and backend rules with txn.auth_response_successful unset: reaching the servers is a violation; requests whose winner declares no access restriction must not be denied or intercepted. Non-trivial = the world has both a protected and an unprotected path; distinct by digest.",
        assumptions=HAPCFG_ASSUMPTIONS + ["auth-url hosts are IP literals (no DNS in the sandbox)", "requests under an oauth allowed path (/oauth2/) are exempt"],
        quick=dict(runs=[dict(tests="^TestC18$", checks=400)], min_nontrivial=50),
        thorough=dict(runs=[dict(tests="^TestC18$", checks=2000, shards=16, timeout=3000)], min_nontrivial=3000),
    ),
    "C08": dict(
        rule="(1) the complete decision table {annotation absent/ours/foreign} x {ingressClassName absent/ours/foreign-controller/dangling} x {watch-without-class} x {class-precedence} = 48 rows, enumerated exhaustively against the real IsValidIngress / GetIngress / GetIngressList; (2) histories over worlds mixing all row kinds with transitions (annotation added/removed/changed, className switched, IngressClass created/deleted/controller changed) delivered through the real watcher predicates; after every reconciliation the routing of every request and the servers of every reached backend must equal the documented rules computed from the *selected* ingresses only (both directions). Non-trivial = the selection of some ingress flipped during the history (table rows: annotation and class both set); distinct by digest.",
        assumptions=HAPCFG_ASSUMPTIONS + ["spec.defaultBackend is not generated here (known finding of C01)"],
        quick=dict(runs=[dict(tests="^TestC08$", checks=250), dict(tests="^TestC08Table$", checks=1)], min_nontrivial=30),
        thorough=dict(runs=[dict(tests="^TestC08$", checks=800, shards=16, timeout=3000), dict(tests="^TestC08Table$", checks=1)], min_nontrivial=1000),
    ),
    "C15": dict(
        rule="histories over worlds whose ingresses assign TLS secrets to hosts (shared secrets, conflicting declarations for one host, wildcard and exact names, hosts listed only under spec.tls, absent / malformed secrets, --default-ssl-certificate unset / valid / dangling) with secret create / content rotation / delete and ingress changes; after every reconciliation, for every SNI of the alphabet (declared names, a sub-domain of the wildcard, a two-label sub-domain, an unknown name) the certificate the *running* simulated HAProxy serves (crt-list as loaded at the last reload, SNI lookup exact > one-label wildcard > default, PEM as loaded or committed through the socket) must be the one of the Secret declared by the first-created ingress listing the host, else the default. Non-trivial = a conflicting declaration was logged or a rotation was applied through the runtime API; distinct by digest.",
        assumptions=["HAProxy SNI lookup: exact filter, then one-label wildcard filter, else the first crt-list line", "certificate identity = SHA-256 of the leaf DER; the auto-generated fake certificate is identified by its role"],
        quick=dict(runs=[dict(tests="^TestC15$", checks=250)], min_nontrivial=15),
        thorough=dict(runs=[dict(tests="^TestC15$", checks=800, shards=16, timeout=3000)], min_nontrivial=500),
    ),
    "C09": dict(
        rule="a reference site in namespace a (auth-tls-secret, secure-crt-secret, secure-verify-ca-secret, auth-secret, auth-url svc://) in the forms b/name and secret://b/name, placed on the Ingress or on the Service, pointing at an object of namespace b; all four cross-namespace-* keys drawn from {unset, deny, allow, Allow, invalid values}, --allow-cross-namespace on/off, namespace b using its own object or not. Two fresh syncs are compared by behavioural normal form: R1 the foreign object exists vs is absent (object otherwise unused; also no PEM file of it may be written), R2 the reference names the existing object vs a non-existent name of b (object possibly used by b itself). When the site's kind is denied the two normal forms must be identical. Cases whose kind is allowed serve as controls (the reference must change the output) and are not counted as non-trivial. Non-trivial = kind denied; distinct by digest.",
        assumptions=HAPCFG_ASSUMPTIONS + ["spec.tls[].secretName and Gateway certificateRefs[].name cannot contain a namespace in a real cluster (API validation): only free-form annotation values are generated"],
        quick=dict(runs=[dict(tests="^TestC09$", checks=500)], min_nontrivial=60),
        thorough=dict(runs=[dict(tests="^TestC09$", checks=2500, shards=16, timeout=3000)], min_nontrivial=400),
    ),
    "C10": dict(
        rule="fresh-sync worlds with GatewayClasses (ours / foreign / missing), 1..3 Gateways x 1..3 listeners (hostname nil/''/*/name; allowedRoutes kinds empty/HTTPRoute/TCPRoute/other group/mixed; namespaces Same/All/Selector with matching or non-matching namespace labels), 1..4 HTTPRoutes/TCPRoutes in two namespaces with 1..2 parentRefs (with/without namespace, group/kind, sectionName, dangling gateway), 1..2 rules, Exact/PathPrefix matches, 1..2 weighted backendRefs (missing service/port/endpoints, nil port, weight 0). An independent evaluation of the Gateway API admission rules gives the expected (host, path, type) -> backend table, the servers (with zero / non-zero weight) of each backend and the TCP ports; the written configuration is routed for 45 http requests and its TCP frontends are read. Non-trivial = at least one (route,parentRef,listener) admitted and at least one rejected for a reason other than class; distinct by digest.",
        assumptions=HAPCFG_ASSUMPTIONS + ["objects carry API-server defaults (allowedRoutes present, from=Same, match type PathPrefix, value /)", "v1 HTTPRoute/Gateway and v1alpha2 TCPRoute only; listener hostname overrides route hostnames (documented limitation); https, filters, regex matches and passthrough listeners are not generated"],
        quick=dict(runs=[dict(tests="^TestC10$", checks=500)], min_nontrivial=60),
        thorough=dict(runs=[dict(tests="^TestC10$", checks=3000, shards=16, timeout=3000)], min_nontrivial=5000),
    ),
    "C06": dict(
        rule="conflict-rich fresh-sync worlds (ingresses with creation-time ties setting different values of backend-scoped keys on shared services, host-scoped keys app-root / redirect-from / auth-tls / ciphers on shared hosts, oauth with several candidate /oauth2 paths, duplicated paths, basic auth sharing userlists); each world is synced 6 times by independent controller instances: a reference run, three runs with the List results of every kind and the order of the initial events permuted by generated permutations, and two plain repetitions (Go re-randomises map iteration); all behavioural normal forms must be identical. Non-trivial = the reference run logged a conflict / already / redeclared warning; distinct by digest of world and permutations.",
        assumptions=HAPCFG_ASSUMPTIONS + ["non-determinism from hash-map order is found probabilistically (6 independent runs per world)", "requests with no documented winner (same path declared with both non-exact types) are exempt"],
        quick=dict(runs=[dict(tests="^TestC06$", checks=120)], min_nontrivial=30),
        thorough=dict(runs=[dict(tests="^TestC06$", checks=500, shards=16, timeout=3000)], min_nontrivial=1500),
    ),
    "C02": dict(
        rule="histories of 1..8 (thorough 14) batches dominated by Endpoints churn (add / remove / replace address, ready<->notReady with drain-support, pod termination), with TLS secret rotation, ingress annotation changes, naming modes sequence/ip/pod, cookie affinity with and without preserve, blue/green weights, slots-min-free 0..6, slots increment 1..8, shards 0/3, endpoint sort orders; 35% of the batches carry a fault plan over the ordinal of the runtime command (connection refused, dropped before / after being applied, non-OK text). After every update that returned nil the state of the simulated HAProxy (per backend and slot: maint, addr:port, weight, drain; preserved cookies; crt-list and PEM per certificate file) must equal the state obtained by loading the files now on disk. Non-trivial = some step applied runtime commands without a reload; distinct by digest.",
        assumptions=["simhap command semantics (set server addr/port/state/weight, set+commit ssl cert) are the trusted base", "cookie values are compared only for backends whose cookie line has `preserve`", "weight of a server in maintenance is not compared"],
        quick=dict(runs=[dict(tests="^TestC02$", checks=250)], min_nontrivial=40),
        thorough=dict(runs=[dict(tests="^TestC02$", checks=800, shards=16, timeout=3000)], min_nontrivial=2000),
    ),
}
