#!/bin/bash
# development aid: ./dev.sh <TestRegex> <checks> <seed> [extra go test args]
export GOFLAGS=-mod=mod GOPROXY=off GOSUMDB=off GOTOOLCHAIN=local
mkdir -p /tmp/r
cd /verif/harness
T=$1; N=$2; S=$3; shift 3
VERIF_REPLAY_OUT=/tmp/r go test -tags verif -run "$T" ./props/ -rapid.checks=$N -rapid.nofailfile -rapid.seed=$S -rapid.shrinktime=20s -timeout 900s "$@" 2>&1 | grep -v "^\s*gen_test.go\|draw\|^\s*c[0-9]*_test.go.*\[rapid\]"
