package world

import (
	"crypto/ecdsa"
	"crypto/elliptic"
	"crypto/rand"
	"crypto/sha256"
	"crypto/x509"
	"crypto/x509/pkix"
	"encoding/hex"
	"encoding/pem"
	"math/big"
	"sync"
	"time"
)

// CertSpec describes one certificate of the pool. The pool's *shape* (SAN sets,
// validity) is fixed, so a case file that names an index keeps its meaning; the
// key material is generated once per process.
type CertSpec struct {
	CN       string
	SANs     []string
	NotAfter time.Duration // relative to now
}

// PoolSpec is the fixed shape of the certificate pool.
var PoolSpec = []CertSpec{
	0:  {"h1.local", []string{"h1.local"}, 90 * 24 * time.Hour},
	1:  {"h2.local", []string{"h2.local"}, 90 * 24 * time.Hour},
	2:  {"h12.local", []string{"h1.local", "h2.local"}, 90 * 24 * time.Hour},
	3:  {"w.local", []string{"*.w.local"}, 90 * 24 * time.Hour},
	4:  {"h3.local", []string{"h3.local"}, 90 * 24 * time.Hour},
	5:  {"other.example", []string{"other.example"}, 90 * 24 * time.Hour},
	6:  {"h1.local", []string{"h1.local"}, 200 * 24 * time.Hour}, // rotation of 0
	7:  {"h2.local", []string{"h2.local"}, 200 * 24 * time.Hour}, // rotation of 1
	8:  {"h1.local", []string{"h1.local"}, -24 * time.Hour},      // expired
	9:  {"all.local", []string{"h1.local", "h2.local", "h3.local", "x.w.local"}, 90 * 24 * time.Hour},
	10: {"w.local", []string{"*.w.local"}, 200 * 24 * time.Hour}, // rotation of 3
	11: {"h3.local", []string{"h3.local"}, 5 * 24 * time.Hour},   // near expiry
}

// Cert is generated material.
type Cert struct {
	Spec   CertSpec
	CrtPEM []byte
	KeyPEM []byte
	DER    []byte
	CA     int // index of the signing CA
}

// Fingerprint of the leaf.
func (c *Cert) Fingerprint() string {
	h := sha256.Sum256(c.DER)
	return hex.EncodeToString(h[:8])
}

// CA ...
type CA struct {
	CrtPEM []byte
	crt    *x509.Certificate
	key    *ecdsa.PrivateKey
}

var (
	poolOnce sync.Once
	pool     []*Cert
	cas      []*CA
)

func genCA(cn string) *CA {
	key, err := ecdsa.GenerateKey(elliptic.P256(), rand.Reader)
	if err != nil {
		panic(err)
	}
	serial, _ := rand.Int(rand.Reader, big.NewInt(1<<62))
	tmpl := x509.Certificate{
		SerialNumber:          serial,
		Subject:               pkix.Name{CommonName: cn},
		NotBefore:             time.Now().Add(-time.Hour),
		NotAfter:              time.Now().Add(3650 * 24 * time.Hour),
		KeyUsage:              x509.KeyUsageCertSign | x509.KeyUsageCRLSign,
		BasicConstraintsValid: true,
		IsCA:                  true,
	}
	der, err := x509.CreateCertificate(rand.Reader, &tmpl, &tmpl, &key.PublicKey, key)
	if err != nil {
		panic(err)
	}
	crt, _ := x509.ParseCertificate(der)
	return &CA{CrtPEM: pem.EncodeToMemory(&pem.Block{Type: "CERTIFICATE", Bytes: der}), crt: crt, key: key}
}

func genLeaf(spec CertSpec, ca *CA, caIdx int) *Cert {
	key, err := ecdsa.GenerateKey(elliptic.P256(), rand.Reader)
	if err != nil {
		panic(err)
	}
	serial, _ := rand.Int(rand.Reader, big.NewInt(1<<62))
	notAfter := time.Now().Add(spec.NotAfter)
	notBefore := time.Now().Add(-time.Hour)
	if notAfter.Before(notBefore) {
		notBefore = notAfter.Add(-24 * time.Hour)
	}
	tmpl := x509.Certificate{
		SerialNumber:          serial,
		Subject:               pkix.Name{CommonName: spec.CN},
		NotBefore:             notBefore,
		NotAfter:              notAfter,
		KeyUsage:              x509.KeyUsageKeyEncipherment | x509.KeyUsageDigitalSignature,
		ExtKeyUsage:           []x509.ExtKeyUsage{x509.ExtKeyUsageServerAuth},
		BasicConstraintsValid: true,
		DNSNames:              spec.SANs,
	}
	der, err := x509.CreateCertificate(rand.Reader, &tmpl, ca.crt, &key.PublicKey, ca.key)
	if err != nil {
		panic(err)
	}
	derkey, err := x509.MarshalECPrivateKey(key)
	if err != nil {
		panic(err)
	}
	return &Cert{
		Spec:   spec,
		CrtPEM: pem.EncodeToMemory(&pem.Block{Type: "CERTIFICATE", Bytes: der}),
		KeyPEM: pem.EncodeToMemory(&pem.Block{Type: "EC PRIVATE KEY", Bytes: derkey}),
		DER:    der,
		CA:     caIdx,
	}
}

func initPool() {
	poolOnce.Do(func() {
		cas = []*CA{genCA("Verif CA 0"), genCA("Verif CA 1")}
		for i, s := range PoolSpec {
			pool = append(pool, genLeaf(s, cas[i%2], i%2))
		}
	})
}

// PoolCert returns certificate i of the pool (modulo its size).
func PoolCert(i int) *Cert {
	initPool()
	if i < 0 {
		i = -i
	}
	return pool[i%len(pool)]
}

// PoolSize ...
func PoolSize() int { return len(PoolSpec) }

// PoolCA returns CA i (modulo).
func PoolCA(i int) *CA {
	initPool()
	if i < 0 {
		i = -i
	}
	return cas[i%len(cas)]
}

// SecretData builds the data of a Secret object.
func SecretData(o *Obj) map[string][]byte {
	d := map[string][]byte{}
	switch o.SecretKind {
	case "tls":
		c := PoolCert(o.Cert)
		d["tls.crt"] = c.CrtPEM
		d["tls.key"] = c.KeyPEM
	case "tlsca":
		c := PoolCert(o.Cert)
		d["tls.crt"] = c.CrtPEM
		d["tls.key"] = c.KeyPEM
		d["ca.crt"] = PoolCA(c.CA).CrtPEM
	case "tlschain":
		// what an ACME server returns and the signer stores: the leaf followed by its issuer
		c := PoolCert(o.Cert)
		d["tls.crt"] = append(append([]byte{}, c.CrtPEM...), PoolCA(c.CA).CrtPEM...)
		d["tls.key"] = c.KeyPEM
	case "ca":
		d["ca.crt"] = PoolCA(o.Cert).CrtPEM
	case "auth":
		d["auth"] = []byte(o.Auth)
	case "bad":
		d["tls.crt"] = []byte("-----BEGIN CERTIFICATE-----\nZm9v\n-----END CERTIFICATE-----\n")
		d["tls.key"] = []byte("not a key")
	case "mismatch":
		// both halves are well formed, but the key belongs to another certificate
		d["tls.crt"] = PoolCert(o.Cert).CrtPEM
		d["tls.key"] = PoolCert((o.Cert + 1) % PoolSize()).KeyPEM
	case "empty":
	}
	return d
}

// FingerprintOfPEM returns the fingerprint of the first certificate of a PEM text, or "".
func FingerprintOfPEM(data []byte) string {
	for {
		var b *pem.Block
		b, data = pem.Decode(data)
		if b == nil {
			return ""
		}
		if b.Type == "CERTIFICATE" {
			h := sha256.Sum256(b.Bytes)
			return hex.EncodeToString(h[:8])
		}
	}
}
