package world

import (
	"sort"
	"strings"

	metav1 "k8s.io/apimachinery/pkg/apis/meta/v1"
	"sigs.k8s.io/controller-runtime/pkg/client"
	gatewayv1 "sigs.k8s.io/gateway-api/apis/v1"
	gatewayv1alpha2 "sigs.k8s.io/gateway-api/apis/v1alpha2"
)

// GatewaySpec describes a Gateway (v1).
type GatewaySpec struct {
	Class     string     `json:"class"`
	Listeners []Listener `json:"listeners"`
}

// RouteKind of allowedRoutes.kinds.
type RouteKind struct {
	Group *string `json:"group,omitempty"`
	Kind  string  `json:"kind"`
}

// Listener of a Gateway. Objects are built with API-server defaults applied:
// allowedRoutes is always present and namespaces.from defaults to Same.
type Listener struct {
	Name     string            `json:"name"`
	Hostname *string           `json:"hostname,omitempty"`
	Port     int               `json:"port"`
	Protocol string            `json:"protocol"`
	TLSMode  string            `json:"tlsMode,omitempty"` // "", Terminate, Passthrough
	CertRefs []string          `json:"certRefs,omitempty"`
	Kinds    []RouteKind       `json:"kinds,omitempty"`
	From     string            `json:"from"` // Same, All, Selector
	Selector map[string]string `json:"selector,omitempty"`
	SelExprs []SelExpr         `json:"selExprs,omitempty"` // matchExpressions of the selector
}

// SelExpr is a label selector requirement.
type SelExpr struct {
	Key    string   `json:"key"`
	Op     string   `json:"op"` // In, NotIn, Exists, DoesNotExist
	Values []string `json:"values,omitempty"`
}

// Matches evaluates the requirement against a label set (Kubernetes semantics).
func (e SelExpr) Matches(labels map[string]string) bool {
	v, has := labels[e.Key]
	in := false
	for _, x := range e.Values {
		if x == v {
			in = true
		}
	}
	switch e.Op {
	case "In":
		return has && in
	case "NotIn":
		return !has || !in
	case "Exists":
		return has
	case "DoesNotExist":
		return !has
	}
	return false
}

// ParentRef of a route.
type ParentRef struct {
	Group   *string `json:"group,omitempty"`
	Kind    *string `json:"kind,omitempty"`
	NS      *string `json:"ns,omitempty"`
	Name    string  `json:"name"`
	Section *string `json:"section,omitempty"`
}

// Match of an HTTPRoute rule.
type Match struct {
	Type  string `json:"type,omitempty"` // Exact, PathPrefix, "" (nil => default PathPrefix)
	Value string `json:"value,omitempty"`
	// Headers: exact header conditions (name -> value) of the match
	Headers map[string]string `json:"headers,omitempty"`
}

// BackRef of a rule.
type BackRef struct {
	Name string `json:"name"`
	// Namespace: the optional namespace field of the backendRef (another namespace than the route's)
	Namespace string `json:"namespace,omitempty"`
	Port      *int   `json:"port,omitempty"`
	Weight    *int   `json:"weight,omitempty"`
}

// RouteRule ...
type RouteRule struct {
	Matches  []Match   `json:"matches,omitempty"`
	Backends []BackRef `json:"backends"`
}

// RouteSpec describes an HTTPRoute (v1) or TCPRoute (v1alpha2).
type RouteSpec struct {
	Parents   []ParentRef `json:"parents"`
	Hostnames []string    `json:"hostnames,omitempty"`
	Rules     []RouteRule `json:"rules"`
}

func gatewayEmpty(kind string) client.Object {
	switch kind {
	case KGatewayClass:
		return &gatewayv1.GatewayClass{}
	case KGateway:
		return &gatewayv1.Gateway{}
	case KHTTPRoute:
		return &gatewayv1.HTTPRoute{}
	case KTCPRoute:
		return &gatewayv1alpha2.TCPRoute{}
	}
	panic(kind)
}

func parentRefs(rt *RouteSpec) []gatewayv1.ParentReference {
	var out []gatewayv1.ParentReference
	for _, p := range rt.Parents {
		pr := gatewayv1.ParentReference{Name: gatewayv1.ObjectName(p.Name)}
		if p.Group != nil {
			g := gatewayv1.Group(*p.Group)
			pr.Group = &g
		}
		if p.Kind != nil {
			k := gatewayv1.Kind(*p.Kind)
			pr.Kind = &k
		}
		if p.NS != nil {
			n := gatewayv1.Namespace(*p.NS)
			pr.Namespace = &n
		}
		if p.Section != nil {
			s := gatewayv1.SectionName(*p.Section)
			pr.SectionName = &s
		}
		out = append(out, pr)
	}
	return out
}

func backendRefs(bs []BackRef) []gatewayv1.BackendRef {
	var out []gatewayv1.BackendRef
	for _, b := range bs {
		br := gatewayv1.BackendRef{}
		br.Name = gatewayv1.ObjectName(b.Name)
		if b.Namespace != "" {
			ns := gatewayv1.Namespace(b.Namespace)
			br.Namespace = &ns
		}
		if b.Port != nil {
			p := gatewayv1.PortNumber(*b.Port)
			br.Port = &p
		}
		if b.Weight != nil {
			w := int32(*b.Weight)
			br.Weight = &w
		}
		out = append(out, br)
	}
	return out
}

func gatewayToK8s(o *Obj) client.Object {
	switch o.Kind {
	case KGatewayClass:
		gc := &gatewayv1.GatewayClass{ObjectMeta: meta(o)}
		gc.Spec.ControllerName = gatewayv1.GatewayController(o.Controller)
		return gc
	case KGateway:
		gw := &gatewayv1.Gateway{ObjectMeta: meta(o)}
		gw.Spec.GatewayClassName = gatewayv1.ObjectName(o.GW.Class)
		for _, l := range o.GW.Listeners {
			li := gatewayv1.Listener{
				Name:     gatewayv1.SectionName(l.Name),
				Port:     gatewayv1.PortNumber(l.Port),
				Protocol: gatewayv1.ProtocolType(l.Protocol),
			}
			if l.Hostname != nil {
				h := gatewayv1.Hostname(*l.Hostname)
				li.Hostname = &h
			}
			if l.TLSMode != "" || len(l.CertRefs) > 0 {
				tls := &gatewayv1.GatewayTLSConfig{}
				mode := gatewayv1.TLSModeTerminate
				if l.TLSMode == "Passthrough" {
					mode = gatewayv1.TLSModePassthrough
				}
				tls.Mode = &mode
				for _, c := range l.CertRefs {
					ref := gatewayv1.SecretObjectReference{Name: gatewayv1.ObjectName(c)}
					if i := strings.Index(c, "/"); i >= 0 {
						// "ns/name": certificateRefs[].namespace
						ns := gatewayv1.Namespace(c[:i])
						ref.Namespace = &ns
						ref.Name = gatewayv1.ObjectName(c[i+1:])
					}
					tls.CertificateRefs = append(tls.CertificateRefs, ref)
				}
				li.TLS = tls
			}
			ar := &gatewayv1.AllowedRoutes{Namespaces: &gatewayv1.RouteNamespaces{}}
			from := gatewayv1.FromNamespaces(l.From)
			if l.From == "" {
				from = gatewayv1.NamespacesFromSame
			}
			ar.Namespaces.From = &from
			if l.From == "Selector" {
				ar.Namespaces.Selector = &metav1.LabelSelector{MatchLabels: map[string]string{}}
				for k, v := range l.Selector {
					ar.Namespaces.Selector.MatchLabels[k] = v
				}
				for _, e := range l.SelExprs {
					ar.Namespaces.Selector.MatchExpressions = append(ar.Namespaces.Selector.MatchExpressions, metav1.LabelSelectorRequirement{
						Key: e.Key, Operator: metav1.LabelSelectorOperator(e.Op), Values: append([]string{}, e.Values...)})
				}
			}
			for _, k := range l.Kinds {
				rk := gatewayv1.RouteGroupKind{Kind: gatewayv1.Kind(k.Kind)}
				if k.Group != nil {
					g := gatewayv1.Group(*k.Group)
					rk.Group = &g
				}
				ar.Kinds = append(ar.Kinds, rk)
			}
			li.AllowedRoutes = ar
			gw.Spec.Listeners = append(gw.Spec.Listeners, li)
		}
		return gw
	case KHTTPRoute:
		rt := &gatewayv1.HTTPRoute{ObjectMeta: meta(o)}
		rt.Spec.ParentRefs = parentRefs(o.RT)
		for _, h := range o.RT.Hostnames {
			rt.Spec.Hostnames = append(rt.Spec.Hostnames, gatewayv1.Hostname(h))
		}
		for _, r := range o.RT.Rules {
			rule := gatewayv1.HTTPRouteRule{}
			for _, m := range r.Matches {
				hm := gatewayv1.HTTPRouteMatch{Path: &gatewayv1.HTTPPathMatch{}}
				// API-server defaults: type PathPrefix, value "/"
				t := gatewayv1.PathMatchPathPrefix
				if m.Type != "" {
					t = gatewayv1.PathMatchType(m.Type)
				}
				hm.Path.Type = &t
				v := m.Value
				if v == "" {
					v = "/"
				}
				hm.Path.Value = &v
				hnames := make([]string, 0, len(m.Headers))
				for name := range m.Headers {
					hnames = append(hnames, name)
				}
				sort.Strings(hnames)
				for _, name := range hnames {
					ht := gatewayv1.HeaderMatchExact
					hm.Headers = append(hm.Headers, gatewayv1.HTTPHeaderMatch{Type: &ht, Name: gatewayv1.HTTPHeaderName(name), Value: m.Headers[name]})
				}
				rule.Matches = append(rule.Matches, hm)
			}
			for _, b := range backendRefs(r.Backends) {
				rule.BackendRefs = append(rule.BackendRefs, gatewayv1.HTTPBackendRef{BackendRef: b})
			}
			rt.Spec.Rules = append(rt.Spec.Rules, rule)
		}
		return rt
	case KTCPRoute:
		rt := &gatewayv1alpha2.TCPRoute{ObjectMeta: meta(o)}
		rt.Spec.ParentRefs = parentRefs(o.RT)
		for _, r := range o.RT.Rules {
			rt.Spec.Rules = append(rt.Spec.Rules, gatewayv1alpha2.TCPRouteRule{BackendRefs: backendRefs(r.Backends)})
		}
		return rt
	}
	panic(o.Kind)
}
