// Package world holds the compact, JSON-serialisable description of a small
// Kubernetes cluster, the operations that change it, and the conversion to the
// objects "as the API server stores them".
package world

import (
	"encoding/json"
	"fmt"
	"sort"
	"strconv"
	"time"

	api "k8s.io/api/core/v1"
	discoveryv1 "k8s.io/api/discovery/v1"
	networking "k8s.io/api/networking/v1"
	metav1 "k8s.io/apimachinery/pkg/apis/meta/v1"
	"k8s.io/apimachinery/pkg/types"
	"k8s.io/apimachinery/pkg/util/intstr"
	"sigs.k8s.io/controller-runtime/pkg/client"
)

// Names used everywhere.
const (
	AnnPrefix      = "haproxy-ingress.github.io/"
	ControllerName = "haproxy-ingress.github.io/controller"
	OurClass       = "haproxy"
	CtlNS          = "ctl"
	GlobalCM       = "ctl/haproxy-ingress"
	TCPCM          = "ctl/tcp-services"
	ClassAnn       = "kubernetes.io/ingress.class"
)

// BaseTime is creationTimestamp 0.
var BaseTime = time.Date(2024, 1, 1, 0, 0, 0, 0, time.UTC)

// Kinds.
const (
	KIngress      = "Ingress"
	KIngressClass = "IngressClass"
	KService      = "Service"
	KEndpoints    = "Endpoints"
	KSecret       = "Secret"
	KConfigMap    = "ConfigMap"
	KPod          = "Pod"
	KNamespace    = "Namespace"
	KGatewayClass = "GatewayClass"
	KGateway      = "Gateway"
	KHTTPRoute    = "HTTPRoute"
	KTCPRoute     = "TCPRoute"
)

// Path of an ingress rule.
type Path struct {
	Path string `json:"path"`
	Type string `json:"type,omitempty"` // Exact, Prefix, ImplementationSpecific, "" (nil)
	Svc  string `json:"svc"`
	Port string `json:"port"` // number or name
}

// Rule of an ingress.
type Rule struct {
	Host  string `json:"host"`
	Paths []Path `json:"paths"`
}

// TLS block.
type TLS struct {
	Hosts  []string `json:"hosts"`
	Secret string   `json:"secret"`
}

// Obj is one Kubernetes object of any generated kind; unused fields stay empty.
type Obj struct {
	Kind    string `json:"kind"`
	NS      string `json:"ns,omitempty"`
	Name    string `json:"name"`
	Created int    `json:"created,omitempty"` // seconds after BaseTime
	Gen     int64  `json:"gen,omitempty"`     // metadata.generation (maintained by Apply)

	Ann    map[string]string `json:"ann,omitempty"`    // controller keys, without prefix
	RawAnn map[string]string `json:"rawann,omitempty"` // verbatim annotations
	Labels map[string]string `json:"labels,omitempty"`

	// Ingress
	ClassName *string `json:"className,omitempty"`
	DefBack   *Path   `json:"defBack,omitempty"`
	Rules     []Rule  `json:"rules,omitempty"`
	TLS       []TLS   `json:"tls,omitempty"`

	// IngressClass / GatewayClass
	Controller string `json:"controller,omitempty"`
	Params     string `json:"params,omitempty"` // ConfigMap name in CtlNS

	// Service
	Ports    []SvcPort         `json:"ports,omitempty"`
	Selector map[string]string `json:"selector,omitempty"`
	Headless bool              `json:"headless,omitempty"`

	// Endpoints
	Subsets []Subset `json:"subsets,omitempty"`

	// Secret
	SecretKind string `json:"secretKind,omitempty"` // tls, ca, cacrl, auth, bad, empty, tlsca
	Cert       int    `json:"cert,omitempty"`       // index in the certificate pool
	Auth       string `json:"auth,omitempty"`       // content of key `auth`

	// ConfigMap
	Data map[string]string `json:"data,omitempty"`

	// Pod
	PodIP       string    `json:"podIP,omitempty"`
	Terminating bool      `json:"terminating,omitempty"`
	UID         string    `json:"uid,omitempty"`
	ContPorts   []SvcPort `json:"contPorts,omitempty"`

	// Gateway API (see gateway.go)
	GW *GatewaySpec `json:"gw,omitempty"`
	RT *RouteSpec   `json:"rt,omitempty"`
}

// SvcPort ...
type SvcPort struct {
	Name   string `json:"name,omitempty"`
	Port   int    `json:"port"`
	Target string `json:"target,omitempty"` // number or name; empty = Port
}

// Addr of an endpoint.
type Addr struct {
	IP  string `json:"ip"`
	Pod string `json:"pod,omitempty"`
}

// Subset of an Endpoints object.
type Subset struct {
	Ready    []Addr    `json:"ready,omitempty"`
	NotReady []Addr    `json:"notReady,omitempty"`
	Ports    []SvcPort `json:"ports"` // Name + Port
}

// Key identifies an object.
func (o *Obj) Key() string {
	if o.NS == "" {
		return o.Kind + ":" + o.Name
	}
	return o.Kind + ":" + o.NS + "/" + o.Name
}

// FullName is ns/name or name.
func (o *Obj) FullName() string {
	if o.NS == "" {
		return o.Name
	}
	return o.NS + "/" + o.Name
}

// Clone deep-copies through JSON.
func (o *Obj) Clone() *Obj {
	b, err := json.Marshal(o)
	if err != nil {
		panic(err)
	}
	var c Obj
	if err := json.Unmarshal(b, &c); err != nil {
		panic(err)
	}
	return &c
}

// Op is one change.
type Op struct {
	Op  string `json:"op"` // create, update, delete
	Obj *Obj   `json:"obj"`
}

func (o Op) String() string { return o.Op + " " + o.Obj.Key() }

// World is a set of objects.
type World struct {
	Objs map[string]*Obj
}

// New ...
func New() *World { return &World{Objs: map[string]*Obj{}} }

// FromList builds a world from a list of objects.
func FromList(l []*Obj) *World {
	w := New()
	for _, o := range l {
		w.Objs[o.Key()] = o.Clone()
	}
	return w
}

// List returns objects sorted by key.
func (w *World) List() []*Obj {
	keys := make([]string, 0, len(w.Objs))
	for k := range w.Objs {
		keys = append(keys, k)
	}
	sort.Strings(keys)
	out := make([]*Obj, len(keys))
	for i, k := range keys {
		out[i] = w.Objs[k]
	}
	return out
}

// OfKind returns the objects of a kind sorted by key.
func (w *World) OfKind(kind string) []*Obj {
	var out []*Obj
	for _, o := range w.List() {
		if o.Kind == kind {
			out = append(out, o)
		}
	}
	return out
}

// Get ...
func (w *World) Get(kind, fullname string) *Obj {
	return w.Objs[kind+":"+fullname]
}

// Clone ...
func (w *World) Clone() *World {
	c := New()
	for k, o := range w.Objs {
		c.Objs[k] = o.Clone()
	}
	return c
}

// specChanged says if an update must bump metadata.generation (what the API
// server does for spec changes; annotations/labels do not bump it).
func specChanged(old, new *Obj) bool {
	a, b := old.Clone(), new.Clone()
	a.Ann, b.Ann = nil, nil
	a.RawAnn, b.RawAnn = nil, nil
	a.Labels, b.Labels = nil, nil
	a.Gen, b.Gen = 0, 0
	ja, _ := json.Marshal(a)
	jb, _ := json.Marshal(b)
	return string(ja) != string(jb)
}

// Apply applies the op to the world model, returning the old object (if any)
// and the stored new object (nil for delete). Generation is maintained here.
func (w *World) Apply(op Op) (old, cur *Obj, err error) {
	key := op.Obj.Key()
	old = w.Objs[key]
	switch op.Op {
	case "create":
		if old != nil {
			return nil, nil, fmt.Errorf("create of existing %s", key)
		}
		cur = op.Obj.Clone()
		cur.Gen = 1
		w.Objs[key] = cur
	case "update":
		if old == nil {
			return nil, nil, fmt.Errorf("update of missing %s", key)
		}
		cur = op.Obj.Clone()
		cur.Created = old.Created
		cur.UID = old.UID
		cur.Gen = old.Gen
		if specChanged(old, cur) {
			cur.Gen = old.Gen + 1
		}
		w.Objs[key] = cur
	case "delete":
		if old == nil {
			return nil, nil, fmt.Errorf("delete of missing %s", key)
		}
		delete(w.Objs, key)
	default:
		return nil, nil, fmt.Errorf("unknown op %q", op.Op)
	}
	return old, cur, nil
}

func meta(o *Obj) metav1.ObjectMeta {
	m := metav1.ObjectMeta{
		Namespace:         o.NS,
		Name:              o.Name,
		Generation:        o.Gen,
		CreationTimestamp: metav1.NewTime(BaseTime.Add(time.Duration(o.Created) * time.Second)),
	}
	if len(o.Ann)+len(o.RawAnn) > 0 {
		m.Annotations = map[string]string{}
		for k, v := range o.Ann {
			m.Annotations[AnnPrefix+k] = v
		}
		for k, v := range o.RawAnn {
			m.Annotations[k] = v
		}
	}
	if len(o.Labels) > 0 {
		m.Labels = map[string]string{}
		for k, v := range o.Labels {
			m.Labels[k] = v
		}
	}
	if o.UID != "" {
		m.UID = types.UID(o.UID)
	}
	return m
}

func ingBackend(p *Path) networking.IngressBackend {
	b := networking.IngressBackend{Service: &networking.IngressServiceBackend{Name: p.Svc}}
	if n, err := strconv.Atoi(p.Port); err == nil {
		b.Service.Port.Number = int32(n)
	} else {
		b.Service.Port.Name = p.Port
	}
	return b
}

func targetPort(p SvcPort) intstr.IntOrString {
	if p.Target == "" {
		return intstr.FromInt(p.Port)
	}
	if n, err := strconv.Atoi(p.Target); err == nil {
		return intstr.FromInt(n)
	}
	return intstr.FromString(p.Target)
}

// ToK8s converts to the typed object.
func (o *Obj) ToK8s() client.Object {
	switch o.Kind {
	case KIngress:
		ing := &networking.Ingress{ObjectMeta: meta(o)}
		if o.ClassName != nil {
			c := *o.ClassName
			ing.Spec.IngressClassName = &c
		}
		if o.DefBack != nil {
			b := ingBackend(o.DefBack)
			ing.Spec.DefaultBackend = &b
		}
		for _, r := range o.Rules {
			rule := networking.IngressRule{Host: r.Host}
			rule.HTTP = &networking.HTTPIngressRuleValue{}
			for i := range r.Paths {
				p := r.Paths[i]
				hp := networking.HTTPIngressPath{Path: p.Path, Backend: ingBackend(&p)}
				if p.Type != "" {
					t := networking.PathType(p.Type)
					hp.PathType = &t
				}
				rule.HTTP.Paths = append(rule.HTTP.Paths, hp)
			}
			ing.Spec.Rules = append(ing.Spec.Rules, rule)
		}
		for _, t := range o.TLS {
			ing.Spec.TLS = append(ing.Spec.TLS, networking.IngressTLS{Hosts: append([]string{}, t.Hosts...), SecretName: t.Secret})
		}
		return ing
	case KIngressClass:
		ic := &networking.IngressClass{ObjectMeta: meta(o)}
		ic.Spec.Controller = o.Controller
		if o.Params != "" {
			ic.Spec.Parameters = &networking.IngressClassParametersReference{Kind: "ConfigMap", Name: o.Params}
		}
		return ic
	case KService:
		svc := &api.Service{ObjectMeta: meta(o)}
		svc.Spec.Type = api.ServiceTypeClusterIP
		svc.Spec.ClusterIP = ClusterIP(o)
		if o.Headless {
			svc.Spec.ClusterIP = api.ClusterIPNone
		}
		for _, p := range o.Ports {
			svc.Spec.Ports = append(svc.Spec.Ports, api.ServicePort{Name: p.Name, Port: int32(p.Port), TargetPort: targetPort(p), Protocol: api.ProtocolTCP})
		}
		if len(o.Selector) > 0 {
			svc.Spec.Selector = map[string]string{}
			for k, v := range o.Selector {
				svc.Spec.Selector[k] = v
			}
		}
		return svc
	case KEndpoints:
		ep := &api.Endpoints{ObjectMeta: meta(o)}
		for _, s := range o.Subsets {
			ss := api.EndpointSubset{}
			for _, a := range s.Ready {
				ss.Addresses = append(ss.Addresses, epAddr(o.NS, a))
			}
			for _, a := range s.NotReady {
				ss.NotReadyAddresses = append(ss.NotReadyAddresses, epAddr(o.NS, a))
			}
			for _, p := range s.Ports {
				ss.Ports = append(ss.Ports, api.EndpointPort{Name: p.Name, Port: int32(p.Port), Protocol: api.ProtocolTCP})
			}
			ep.Subsets = append(ep.Subsets, ss)
		}
		return ep
	case KSecret:
		s := &api.Secret{ObjectMeta: meta(o)}
		s.Data = SecretData(o)
		if o.SecretKind == "tls" || o.SecretKind == "tlsca" || o.SecretKind == "tlschain" {
			s.Type = api.SecretTypeTLS
		}
		return s
	case KConfigMap:
		cm := &api.ConfigMap{ObjectMeta: meta(o)}
		cm.Data = map[string]string{}
		for k, v := range o.Data {
			cm.Data[k] = v
		}
		return cm
	case KPod:
		p := &api.Pod{ObjectMeta: meta(o)}
		p.Status.PodIP = o.PodIP
		if o.Terminating {
			t := metav1.NewTime(BaseTime.Add(time.Hour))
			p.DeletionTimestamp = &t
			p.Finalizers = []string{"verif/keep"}
		}
		c := api.Container{Name: "c"}
		for _, cp := range o.ContPorts {
			c.Ports = append(c.Ports, api.ContainerPort{Name: cp.Name, ContainerPort: int32(cp.Port), Protocol: api.ProtocolTCP})
		}
		p.Spec.Containers = []api.Container{c}
		return p
	case KNamespace:
		return &api.Namespace{ObjectMeta: meta(o)}
	case KGatewayClass, KGateway, KHTTPRoute, KTCPRoute:
		return gatewayToK8s(o)
	}
	panic("unknown kind " + o.Kind)
}

func epAddr(ns string, a Addr) api.EndpointAddress {
	ea := api.EndpointAddress{IP: a.IP}
	if a.Pod != "" {
		ea.TargetRef = &api.ObjectReference{Kind: "Pod", Namespace: ns, Name: a.Pod}
	}
	return ea
}

// Empty returns an empty typed object of the kind, for Get/Delete.
func Empty(kind string) client.Object {
	o := &Obj{Kind: kind, Name: "x"}
	if kind == KGateway || kind == KHTTPRoute || kind == KTCPRoute || kind == KGatewayClass {
		return gatewayEmpty(kind)
	}
	k := o.ToK8s()
	k.SetName("")
	return k
}


// EndpointSlices renders an Endpoints object of the world the way the EndpointSlice controller of a cluster publishes
// it: one slice per subset, split in two (even / odd positions) when the subset has two addresses or more, all labelled
// with kubernetes.io/service-name. Ready of a ready address is true or left unset (nil means ready, by the API's rule).
func EndpointSlices(o *Obj) []*discoveryv1.EndpointSlice {
	if o == nil || o.Kind != KEndpoints {
		return nil
	}
	var out []*discoveryv1.EndpointSlice
	tcp := api.ProtocolTCP
	yes, no := true, false
	for i, s := range o.Subsets {
		type item struct {
			a     Addr
			ready bool
		}
		var all []item
		for _, a := range s.Ready {
			all = append(all, item{a, true})
		}
		for _, a := range s.NotReady {
			all = append(all, item{a, false})
		}
		parts := [][]item{all}
		if len(all) >= 2 {
			parts = [][]item{nil, nil}
			for j, it := range all {
				parts[j%2] = append(parts[j%2], it)
			}
		}
		for pi, part := range parts {
			m := meta(o)
			m.Name = fmt.Sprintf("%s-%d%c", o.Name, i, 'a'+pi)
			if m.Labels == nil {
				m.Labels = map[string]string{}
			}
			m.Labels[discoveryv1.LabelServiceName] = o.Name
			sl := &discoveryv1.EndpointSlice{ObjectMeta: m, AddressType: discoveryv1.AddressTypeIPv4}
			for _, p := range s.Ports {
				name, port := p.Name, int32(p.Port)
				sl.Ports = append(sl.Ports, discoveryv1.EndpointPort{Name: &name, Port: &port, Protocol: &tcp})
			}
			for j, it := range part {
				e := discoveryv1.Endpoint{Addresses: []string{it.a.IP}}
				switch {
				case !it.ready:
					e.Conditions.Ready = &no
				case j%2 == 0:
					e.Conditions.Ready = &yes
				}
				if it.a.Pod != "" {
					e.TargetRef = &api.ObjectReference{Kind: "Pod", Namespace: o.NS, Name: it.a.Pod}
				}
				sl.Endpoints = append(sl.Endpoints, e)
			}
			out = append(out, sl)
		}
	}
	return out
}


// ClusterIP is the cluster IP of a (not headless) Service of the world: one per namespace and name.
func ClusterIP(o *Obj) string {
	n := 9
	switch o.NS {
	case "a":
		n = 1
	case "b":
		n = 2
	case "ab":
		n = 3
	}
	m := 200
	if len(o.Name) >= 2 && o.Name[0] == 's' {
		if v, err := strconv.Atoi(o.Name[1:]); err == nil && v >= 0 && v < 200 {
			m = v
		}
	}
	return fmt.Sprintf("10.96.%d.%d", n, m)
}
