// Package simhap is a simulated HAProxy process: it listens on an admin and a
// master unix socket, "loads" the configuration directory on `reload` and
// applies the runtime commands the controller sends (`set server`, `set ssl
// cert`, `commit ssl cert`). Its state is what the checks compare with the
// files on disk. A fault plan makes individual commands or reloads fail.
package simhap

import (
	"bufio"
	"fmt"
	"net"
	"path/filepath"
	"sort"
	"strconv"
	"strings"
	"sync"
	"syscall"

	"verifharness/hapcfg"
)

// Fault kinds for a runtime command or a reload.
const (
	FaultNone    = ""
	FaultRefuse  = "refuse"  // connection closed before anything is read
	FaultDrop    = "drop"    // command read, connection closed without response (command NOT applied)
	FaultDropApp = "dropapp" // command applied, connection closed without response
	FaultNotOK   = "notok"   // command not applied, unexpected text returned
	FaultFail    = "fail"    // reload only: new worker fails to start (show proc reports failed: 1)
	FaultNoRel   = "norel"   // reload only: master socket closes without reloading
	FaultReset   = "reset"   // reload only: the connection is closed with the command still unread (the client sees ECONNRESET), nothing reloads
)

// Server is the runtime state of one server slot.
type Server struct {
	Name     string
	Addr     string
	Port     int
	Weight   int
	Maint    bool // admin state maint (disabled)
	Drain    bool
	Cookie   string
	Disabled bool // loaded as `disabled`
}

// State is the running state.
type State struct {
	Backends map[string]map[string]*Server    // backend -> server name -> state
	Certs    map[string]string                // certificate file -> PEM content
	Loaded   *hapcfg.Config                   // configuration as parsed at the last successful reload
	CrtLists map[string][]hapcfg.CrtListEntry // frontend -> crt-list entries as loaded
}

// Sim ...
type Sim struct {
	mu         sync.Mutex
	cfgDir     string
	adminPath  string
	masterPath string
	adminL     net.Listener
	masterL    net.Listener
	wg         sync.WaitGroup
	closed     bool
	conns      map[net.Conn]struct{} // open connections, closed by Close()

	state       *State
	pendingCert map[string]string

	Reloads      int // successful reloads
	ReloadTries  int
	lastFailed   bool
	CmdCount     int // runtime commands received (set server / set ssl / commit)
	CmdLog       []string
	FaultsHit    int
	cmdFaults    map[int]string // ordinal of runtime command (1-based since last SetFaults) -> fault
	reloadFaults map[int]string // ordinal of reload (1-based since last SetFaults) -> fault
	cmdOrd       int
	reloadOrd    int
	ParseErrors  []string
}

// New starts a simulated HAProxy using cfgDir as its `-f` directory.
func New(cfgDir, runDir string) (*Sim, error) {
	s := &Sim{
		cfgDir:      cfgDir,
		adminPath:   filepath.Join(runDir, "admin.sock"),
		masterPath:  filepath.Join(runDir, "master.sock"),
		state:       &State{Backends: map[string]map[string]*Server{}, Certs: map[string]string{}},
		pendingCert: map[string]string{},
		conns:       map[net.Conn]struct{}{},
	}
	var err error
	if s.adminL, err = net.Listen("unix", s.adminPath); err != nil {
		return nil, err
	}
	if s.masterL, err = net.Listen("unix", s.masterPath); err != nil {
		s.adminL.Close()
		return nil, err
	}
	s.wg.Add(2)
	go s.serve(s.adminL, s.handleAdmin)
	go s.serve(s.masterL, s.handleMaster)
	return s, nil
}

// AdminSocket ...
func (s *Sim) AdminSocket() string { return s.adminPath }

// MasterSocket ...
func (s *Sim) MasterSocket() string { return s.masterPath }

// Close stops the listeners.
func (s *Sim) Close() {
	s.mu.Lock()
	s.closed = true
	for c := range s.conns {
		// a client may keep a persistent connection open: the handler must not wait for it
		c.Close()
	}
	s.mu.Unlock()
	s.adminL.Close()
	s.masterL.Close()
	s.wg.Wait()
}

// SetFaults installs a fault plan; ordinals restart at 1.
func (s *Sim) SetFaults(cmd, reload map[int]string) {
	s.mu.Lock()
	defer s.mu.Unlock()
	s.cmdFaults = cmd
	s.reloadFaults = reload
	s.cmdOrd = 0
	s.reloadOrd = 0
}

// Snapshot returns a deep copy of the running state (Loaded is shared, read only).
func (s *Sim) Snapshot() *State {
	s.mu.Lock()
	defer s.mu.Unlock()
	out := &State{Backends: map[string]map[string]*Server{}, Certs: map[string]string{}, Loaded: s.state.Loaded, CrtLists: s.state.CrtLists}
	for b, m := range s.state.Backends {
		mm := map[string]*Server{}
		for n, sv := range m {
			c := *sv
			mm[n] = &c
		}
		out.Backends[b] = mm
	}
	for k, v := range s.state.Certs {
		out.Certs[k] = v
	}
	return out
}

// Counters returns reloads and commands so far.
func (s *Sim) Counters() (reloads, tries, cmds, faults int) {
	s.mu.Lock()
	defer s.mu.Unlock()
	return s.Reloads, s.ReloadTries, s.CmdCount, s.FaultsHit
}

// TakeCmdLog returns and clears the log of runtime commands.
func (s *Sim) TakeCmdLog() []string {
	s.mu.Lock()
	defer s.mu.Unlock()
	l := s.CmdLog
	s.CmdLog = nil
	return l
}

func (s *Sim) serve(l net.Listener, h func(net.Conn)) {
	defer s.wg.Done()
	for {
		c, err := l.Accept()
		if err != nil {
			return
		}
		s.mu.Lock()
		if s.closed {
			s.mu.Unlock()
			c.Close()
			return
		}
		s.conns[c] = struct{}{}
		s.mu.Unlock()
		s.wg.Add(1)
		go func() {
			defer s.wg.Done()
			defer func() {
				s.mu.Lock()
				delete(s.conns, c)
				s.mu.Unlock()
				c.Close()
			}()
			h(c)
		}()
	}
}

// LoadState builds the state HAProxy would have after loading the files now on disk.
func LoadState(cfgDir string) (*State, []string) {
	cfg, errs := hapcfg.LoadDir(cfgDir)
	st := &State{Backends: map[string]map[string]*Server{}, Certs: map[string]string{}, Loaded: cfg}
	for _, b := range cfg.Backends {
		m := map[string]*Server{}
		for _, sv := range b.Servers {
			m[sv.Name] = &Server{
				Name:     sv.Name,
				Addr:     sv.Addr,
				Port:     sv.Port,
				Weight:   sv.Weight,
				Maint:    sv.Disabled,
				Disabled: sv.Disabled,
				Drain:    !sv.Disabled && sv.Weight == 0,
				Cookie:   sv.Cookie,
			}
		}
		st.Backends[b.Name] = m
	}
	st.CrtLists = map[string][]hapcfg.CrtListEntry{}
	for fe, lists := range cfg.BindCrtLists() {
		for _, lf := range lists {
			entries, err := cfg.CrtList(lf)
			if err != nil {
				errs = append(errs, fmt.Sprintf("crt-list %s: %v", lf, err))
				continue
			}
			st.CrtLists[fe] = append(st.CrtLists[fe], entries...)
		}
	}
	for _, f := range cfg.CertFiles() {
		if data, err := hapcfg.ReadFile(f); err == nil {
			st.Certs[f] = normPEM(string(data))
		} else {
			errs = append(errs, fmt.Sprintf("certificate file %s: %v", f, err))
		}
	}
	return st, errs
}

func normPEM(s string) string {
	for strings.Contains(s, "\n\n") {
		s = strings.ReplaceAll(s, "\n\n", "\n")
	}
	return strings.TrimSpace(s)
}

// peekCommand waits for the first bytes of the connection and returns them without consuming them.
func peekCommand(c net.Conn) string {
	uc, ok := c.(*net.UnixConn)
	if !ok {
		return ""
	}
	raw, err := uc.SyscallConn()
	if err != nil {
		return ""
	}
	var peek string
	_ = raw.Read(func(fd uintptr) bool {
		buf := make([]byte, 16)
		n, _, err := syscall.Recvfrom(int(fd), buf, syscall.MSG_PEEK)
		if err == syscall.EAGAIN || err == syscall.EWOULDBLOCK {
			return false // wait until readable
		}
		if n > 0 {
			peek = string(buf[:n])
		}
		return true
	})
	return peek
}

func (s *Sim) handleMaster(c net.Conn) {
	ordTaken := false
	if strings.HasPrefix(peekCommand(c), "reload") {
		s.mu.Lock()
		s.reloadOrd++
		ordTaken = true
		if s.reloadFaults[s.reloadOrd] == FaultReset {
			// close with the command unread: the peer gets ECONNRESET instead of an orderly end of stream
			s.FaultsHit++
			s.mu.Unlock()
			return
		}
		s.mu.Unlock()
	}
	r := bufio.NewReader(c)
	for {
		line, err := r.ReadString('\n')
		if err != nil {
			return
		}
		cmd := strings.TrimSpace(line)
		switch cmd {
		case "prompt":
			fmt.Fprint(c, "\nmaster> ")
		case "show proc":
			s.mu.Lock()
			failed := 0
			if s.lastFailed {
				failed = 1
			}
			reloads := s.ReloadTries
			s.mu.Unlock()
			out := "#<PID>          <type>          <reloads>       <uptime>        <version>       \n"
			master := fmt.Sprintf("%d", reloads)
			if failed > 0 {
				master = fmt.Sprintf("%d [failed: %d]", reloads, failed)
			}
			out += fmt.Sprintf("%-16s%-16s%-16s%-16s%-16s\n", "1", "master", master, "0d00h01m28s", "2.6.0-sim")
			out += "# workers\n"
			out += fmt.Sprintf("%-16s%-16s%-16s%-16s%-16s\n", "3", "worker", "0", "0d00h00m00s", "2.6.0-sim")
			out += "# old workers\n# programs\n\n"
			fmt.Fprint(c, out)
			return
		case "reload":
			s.mu.Lock()
			if !ordTaken {
				s.reloadOrd++
			}
			ordTaken = false
			fault := s.reloadFaults[s.reloadOrd]
			if fault != FaultNone {
				s.FaultsHit++
			}
			switch fault {
			case FaultNoRel, FaultRefuse, FaultDrop:
				s.mu.Unlock()
				return
			case FaultFail:
				s.ReloadTries++
				s.lastFailed = true
				s.mu.Unlock()
				return
			}
			s.ReloadTries++
			st, errs := LoadState(s.cfgDir)
			s.ParseErrors = errs
			s.state = st
			s.pendingCert = map[string]string{}
			s.Reloads++
			s.lastFailed = false
			s.mu.Unlock()
			return
		default:
			fmt.Fprint(c, "Unknown command\n\n")
			return
		}
	}
}

func (s *Sim) handleAdmin(c net.Conn) {
	r := bufio.NewReader(c)
	interactive := false
	// A connection to the admin socket belongs to the worker process that accepted it. A reload
	// starts a new worker from the files; a connection that was open before keeps talking to the
	// old, leaving worker: its commands are answered but never reach the new one.
	s.mu.Lock()
	worker, pending := s.state, s.pendingCert
	s.mu.Unlock()
	for {
		line, err := r.ReadString('\n')
		if err != nil {
			return
		}
		cmd := strings.TrimRight(line, "\n")
		if strings.TrimSpace(cmd) == "" {
			continue
		}
		if cmd == "prompt" {
			interactive = true
			fmt.Fprint(c, "\n> ")
			continue
		}
		payload := ""
		if strings.HasSuffix(cmd, "<<") {
			cmd = strings.TrimSpace(strings.TrimSuffix(cmd, "<<"))
			for {
				pl, err := r.ReadString('\n')
				if err != nil {
					return
				}
				if pl == "\n" {
					break
				}
				payload += pl
			}
		}
		resp, closeConn := s.exec(cmd, payload, worker, pending)
		if closeConn {
			return
		}
		if interactive {
			fmt.Fprintf(c, "%s\n> ", resp)
		} else {
			fmt.Fprintf(c, "%s\n", resp)
			return
		}
	}
}

// exec applies one runtime command; returns the response text (without the
// trailing empty line) and whether the connection must be dropped instead.
func (s *Sim) exec(cmd, payload string, worker *State, pending map[string]string) (string, bool) {
	s.mu.Lock()
	defer s.mu.Unlock()
	f := strings.Fields(cmd)
	if len(f) == 0 {
		return "", false
	}
	counted := false
	fault := FaultNone
	if (f[0] == "set" || f[0] == "commit") && len(f) > 2 {
		counted = true
		s.CmdCount++
		s.cmdOrd++
		fault = s.cmdFaults[s.cmdOrd]
		logline := cmd
		if fault != FaultNone {
			s.FaultsHit++
			logline += " [fault:" + fault + "]"
		}
		s.CmdLog = append(s.CmdLog, logline)
	}
	_ = counted
	switch fault {
	case FaultRefuse, FaultDrop:
		return "", true
	case FaultNotOK:
		return "Simulated failure.\n", false
	}
	resp := apply(worker, pending, f, payload)
	if fault == FaultDropApp {
		return "", true
	}
	return resp, false
}

func apply(state *State, pendingCert map[string]string, f []string, payload string) string {
	switch {
	case len(f) >= 3 && f[0] == "set" && f[1] == "server":
		bs := strings.SplitN(f[2], "/", 2)
		if len(bs) != 2 {
			return "Require 'backend/server'.\n"
		}
		back, ok := state.Backends[bs[0]]
		if !ok {
			return "No such backend.\n"
		}
		srv, ok := back[bs[1]]
		if !ok {
			return "No such server.\n"
		}
		args := f[3:]
		switch {
		case len(args) == 4 && args[0] == "addr" && args[2] == "port":
			port, err := strconv.Atoi(args[3])
			if err != nil || net.ParseIP(args[1]) == nil {
				return "Invalid addr/port.\n"
			}
			if srv.Addr == args[1] && srv.Port == port {
				return "no need to change the addr, no need to change the port\n"
			}
			msg := fmt.Sprintf("IP changed from '%s' to '%s', port changed from '%d' to '%d' by 'stats socket command'\n", srv.Addr, args[1], srv.Port, port)
			srv.Addr = args[1]
			srv.Port = port
			return msg
		case len(args) == 2 && args[0] == "state":
			switch args[1] {
			case "ready":
				srv.Maint = false
				srv.Drain = false
			case "drain":
				srv.Maint = false
				srv.Drain = true
			case "maint":
				srv.Maint = true
			default:
				return "'set server <srv> state' expects 'ready', 'drain' and 'maint'.\n"
			}
			return ""
		case len(args) == 2 && args[0] == "weight":
			w, err := strconv.Atoi(args[1])
			if err != nil || w < 0 || w > 256 {
				return "Invalid weight.\n"
			}
			srv.Weight = w
			return ""
		}
		return "usage: set server <backend>/<server> ...\n"
	case len(f) == 4 && f[0] == "set" && f[1] == "ssl" && f[2] == "cert":
		if _, ok := state.Certs[f[3]]; !ok {
			return "Can't replace a certificate which is not referenced by the configuration!\n"
		}
		if !strings.Contains(payload, "BEGIN CERTIFICATE") {
			return "unable to load certificate\n"
		}
		pendingCert[f[3]] = normPEM(payload)
		return "Transaction created for certificate " + f[3] + "!\n"
	case len(f) == 4 && f[0] == "commit" && f[1] == "ssl" && f[2] == "cert":
		p, ok := pendingCert[f[3]]
		if !ok {
			return "No ongoing transaction! !\n"
		}
		delete(pendingCert, f[3])
		state.Certs[f[3]] = p
		return "Committing " + f[3] + ".\nSuccess!\n"
	case f[0] == "show" && len(f) >= 2 && f[1] == "servers":
		var names []string
		for b := range state.Backends {
			names = append(names, b)
		}
		sort.Strings(names)
		return "1\n# be_id be_name srv_id srv_name srv_addr\n"
	case f[0] == "show" && len(f) >= 2 && f[1] == "info":
		return "Name: HAProxy\nIdle_pct: 100\n"
	}
	return "Unknown command. Please enter one of the following commands only :\n"
}
