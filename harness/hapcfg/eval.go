package hapcfg

import (
	"fmt"
	"regexp"
	"strconv"
	"strings"
)

// Tri is a three-valued truth value.
type Tri int

// Truth values.
const (
	False Tri = iota
	True
	Unknown
)

func (t Tri) String() string { return [...]string{"false", "true", "unknown"}[t] }

func triNot(t Tri) Tri {
	switch t {
	case True:
		return False
	case False:
		return True
	}
	return Unknown
}

func triAnd(a, b Tri) Tri {
	if a == False || b == False {
		return False
	}
	if a == Unknown || b == Unknown {
		return Unknown
	}
	return True
}

func triOr(a, b Tri) Tri {
	if a == True || b == True {
		return True
	}
	if a == Unknown || b == Unknown {
		return Unknown
	}
	return False
}

// Request is an HTTP(S) request.
type Request struct {
	HTTPS   bool              `json:"https,omitempty"`
	Host    string            `json:"host"` // Host header as sent (may carry :port and upper case)
	Path    string            `json:"path"`
	SNI     string            `json:"sni,omitempty"`
	Method  string            `json:"method,omitempty"`
	Headers map[string]string `json:"headers,omitempty"`
	Cookies map[string]string `json:"cookies,omitempty"`
}

func (r Request) String() string {
	sch := "http"
	if r.HTTPS {
		sch = "https"
	}
	return fmt.Sprintf("%s://%s%s", sch, r.Host, r.Path)
}

// Val is a sample: found or not, or not computable.
type Val struct {
	Found   bool
	S       string
	Unknown bool
}

// Action is a terminal http-request action that fired.
type Action struct {
	Section string
	Kind    string // deny, redirect, auth, use-service, silent-drop, return, tarpit, reject
	Raw     string
	Tok     []string
}

// Effect is a non-terminal action that fired and is relevant to the checks.
type Effect struct {
	Section string
	Kind    string
	Raw     string
	Tok     []string
}

// Result of routing one request.
type Result struct {
	Frontend string
	Backend  string // backend section that receives the request ("" if a frontend action ended it)
	Final    *Action
	Effects  []Effect
	Vars     map[string]Val
	Unknowns []string // why the result is inconclusive (empty = conclusive)
	Trace    []string
	Servers  []*Server // after use-server evaluation: nil = normal load balancing
	Applied  []string  // every http-request/http-response rule whose condition held (or is unknown, marked "?"), pathID terms removed
}

// Inconclusive ...
func (r *Result) Inconclusive() bool { return len(r.Unknowns) > 0 }

// Summary is a compact description used in normal forms and messages.
func (r *Result) Summary() string {
	s := "backend=" + r.Backend
	if r.Final != nil {
		s += " final=" + r.Final.Section + ":" + r.Final.Kind
	}
	if r.Inconclusive() {
		s += " INCONCLUSIVE(" + strings.Join(r.Unknowns, ";") + ")"
	}
	return s
}

type evalCtx struct {
	c    *Config
	req  Request
	vars map[string]Val
	res  *Result
	sec  *Section
}

func (e *evalCtx) unknown(why string) {
	for _, u := range e.res.Unknowns {
		if u == why {
			return
		}
	}
	e.res.Unknowns = append(e.res.Unknowns, why)
}

// splitTop splits on sep at parenthesis depth 0.
func splitTop(s string, sep byte) []string {
	var out []string
	depth := 0
	start := 0
	for i := 0; i < len(s); i++ {
		switch s[i] {
		case '(':
			depth++
		case ')':
			if depth > 0 {
				depth--
			}
		default:
			if s[i] == sep && depth == 0 {
				out = append(out, s[start:i])
				start = i + 1
			}
		}
	}
	return append(out, s[start:])
}

func nameArgs(item string) (string, string, bool) {
	i := strings.Index(item, "(")
	if i < 0 || !strings.HasSuffix(item, ")") {
		return item, "", false
	}
	return item[:i], item[i+1 : len(item)-1], true
}

// sample evaluates `fetch,conv,conv...`.
func (e *evalCtx) sample(expr string) Val {
	items := splitTop(expr, ',')
	v := e.fetch(items[0])
	for _, it := range items[1:] {
		if v.Unknown {
			return v
		}
		v = e.conv(v, it)
	}
	return v
}

func (e *evalCtx) fetch(item string) Val {
	name, args, _ := nameArgs(item)
	switch name {
	case "path":
		return Val{Found: true, S: e.req.Path}
	case "base":
		return Val{Found: true, S: e.req.Host + e.req.Path}
	case "method":
		return Val{Found: true, S: e.method()}
	case "hdr", "req.hdr", "req.fhdr":
		h := strings.ToLower(args)
		if h == "host" {
			return Val{Found: e.req.Host != "", S: e.req.Host}
		}
		for k, v := range e.req.Headers {
			if strings.ToLower(k) == h {
				return Val{Found: true, S: v}
			}
		}
		return Val{}
	case "req.cook", "cook":
		if v, ok := e.req.Cookies[args]; ok {
			return Val{Found: true, S: v}
		}
		return Val{}
	case "var":
		if v, ok := e.vars[args]; ok {
			return v
		}
		return Val{}
	case "str":
		return Val{Found: true, S: args}
	case "ssl_fc_sni", "req.ssl_sni", "req_ssl_sni":
		if !e.req.HTTPS {
			return Val{}
		}
		return Val{Found: e.req.SNI != "", S: e.req.SNI}
	case "ssl_fc":
		if e.req.HTTPS {
			return Val{Found: true, S: "1"}
		}
		return Val{Found: true, S: "0"}
	}
	return Val{Unknown: true, S: "fetch " + item}
}

func (e *evalCtx) method() string {
	if e.req.Method == "" {
		return "GET"
	}
	return e.req.Method
}

func (e *evalCtx) conv(v Val, item string) Val {
	name, args, _ := nameArgs(item)
	switch name {
	case "lower":
		if v.Found {
			v.S = strings.ToLower(v.S)
		}
		return v
	case "upper":
		if v.Found {
			v.S = strings.ToUpper(v.S)
		}
		return v
	case "field":
		if !v.Found {
			return v
		}
		a := splitTop(args, ',')
		if len(a) != 2 {
			return Val{Unknown: true, S: "conv " + item}
		}
		idx, err := strconv.Atoi(a[0])
		if err != nil || idx < 1 || len(a[1]) == 0 {
			return Val{Unknown: true, S: "conv " + item}
		}
		parts := strings.FieldsFunc(v.S+"\x00", func(r rune) bool { return strings.ContainsRune(a[1], r) })
		// FieldsFunc drops empty fields; HAProxy keeps them. Do it by hand.
		parts = splitAny(v.S, a[1])
		if idx > len(parts) {
			return Val{}
		}
		return Val{Found: true, S: parts[idx-1]}
	case "concat":
		if !v.Found {
			return v
		}
		a := splitTop(args, ',')
		s := v.S
		if len(a) > 0 {
			s += a[0]
		}
		if len(a) > 1 && a[1] != "" {
			if vv, ok := e.vars[a[1]]; ok && vv.Found {
				s += vv.S
			}
		}
		if len(a) > 2 {
			s += a[2]
		}
		return Val{Found: true, S: s}
	case "map", "map_str", "map_beg", "map_dir", "map_reg", "map_end", "map_sub", "map_dom":
		if !v.Found {
			return Val{}
		}
		a := splitTop(args, ',')
		m := e.c.Map(a[0])
		if m.Err != nil {
			e.unknown("map file unreadable: " + a[0])
			return Val{Unknown: true, S: "map " + a[0]}
		}
		method := strings.TrimPrefix(name, "map_")
		if name == "map" {
			method = "str"
		}
		if val, ok := LookupMap(m.Entries, method, v.S, false); ok {
			return Val{Found: true, S: val}
		}
		if len(a) > 1 {
			return Val{Found: true, S: a[1]}
		}
		return Val{}
	}
	return Val{Unknown: true, S: "conv " + item}
}

func splitAny(s, seps string) []string {
	var out []string
	start := 0
	for i := 0; i < len(s); i++ {
		if strings.IndexByte(seps, s[i]) >= 0 {
			out = append(out, s[start:i])
			start = i + 1
		}
	}
	return append(out, s[start:])
}

func isDirDelim(c byte) bool { return c == '/' || c == '?' }

// MatchDir implements HAProxy's pat_match_dir (match_word with delimiters / and ?).
func MatchDir(sample, pattern string, icase bool) bool {
	for len(pattern) > 0 && isDirDelim(pattern[0]) {
		pattern = pattern[1:]
	}
	for len(pattern) > 0 && isDirDelim(pattern[len(pattern)-1]) {
		pattern = pattern[:len(pattern)-1]
	}
	pl := len(pattern)
	if pl > len(sample) {
		return false
	}
	if icase {
		sample = strings.ToLower(sample)
		pattern = strings.ToLower(pattern)
	}
	mayMatch := true
	end := len(sample) - pl
	for c := 0; c <= end; c++ {
		if isDirDelim(sample[c]) {
			mayMatch = true
			continue
		}
		if !mayMatch {
			continue
		}
		if pl > 0 && sample[c] == pattern[0] && sample[c:c+pl] == pattern && (c == end || isDirDelim(sample[c+pl])) {
			return true
		}
		mayMatch = false
	}
	return false
}

var regexCache = map[string]*regexp.Regexp{}

func compile(p string, icase bool) (*regexp.Regexp, error) {
	key := p
	if icase {
		key = "(?i)" + p
	}
	if r, ok := regexCache[key]; ok {
		return r, nil
	}
	r, err := regexp.Compile(key)
	if err != nil {
		return nil, err
	}
	regexCache[key] = r
	return r, nil
}

func matchOne(method, sample, pattern string, icase bool) bool {
	if icase && method != "reg" && method != "dir" {
		sample = strings.ToLower(sample)
		pattern = strings.ToLower(pattern)
	}
	switch method {
	case "str":
		return sample == pattern
	case "beg":
		return strings.HasPrefix(sample, pattern)
	case "end":
		return strings.HasSuffix(sample, pattern)
	case "sub":
		return strings.Contains(sample, pattern)
	case "dir":
		return MatchDir(sample, pattern, icase)
	case "reg":
		r, err := compile(pattern, icase)
		if err != nil {
			return false
		}
		return r.MatchString(sample)
	}
	return false
}

// LookupMap looks a sample up in map entries with HAProxy's semantics:
// str = exact; beg = longest prefix; others = first matching entry in file order.
func LookupMap(entries []MapEntry, method, sample string, icase bool) (string, bool) {
	switch method {
	case "str":
		for _, en := range entries {
			if matchOne("str", sample, en.Key, icase) {
				return en.Value, true
			}
		}
	case "beg":
		best := -1
		for i, en := range entries {
			if matchOne("beg", sample, en.Key, icase) {
				if best < 0 || len(en.Key) > len(entries[best].Key) {
					best = i
				}
			}
		}
		if best >= 0 {
			return entries[best].Value, true
		}
	default:
		for _, en := range entries {
			if matchOne(method, sample, en.Key, icase) {
				return en.Value, true
			}
		}
	}
	return "", false
}

// aclExpr evaluates the tokens of an ACL expression (without name).
func (e *evalCtx) aclExpr(tok []string) Tri {
	if len(tok) == 0 {
		return Unknown
	}
	fetch := tok[0]
	rest := tok[1:]
	icase := false
	method := ""
	var patterns []string
	fromFile := false
	for i := 0; i < len(rest); i++ {
		t := rest[i]
		switch {
		case t == "-i":
			icase = true
		case t == "-m" && i+1 < len(rest):
			method = rest[i+1]
			i++
		case t == "-f" && i+1 < len(rest):
			m := e.c.Map(rest[i+1])
			if m.Err != nil {
				e.unknown("pattern file unreadable: " + rest[i+1])
				return Unknown
			}
			for _, en := range m.Entries {
				k := en.Key
				patterns = append(patterns, k)
			}
			fromFile = true
			i++
		case t == "--":
			patterns = append(patterns, rest[i+1:]...)
			i = len(rest)
		default:
			patterns = append(patterns, t)
		}
	}
	_ = fromFile
	// fetches with an implied match method / boolean fetches
	name, args, _ := nameArgs(fetch)
	switch name {
	case "ssl_fc":
		if e.req.HTTPS {
			return True
		}
		return False
	case "http_auth":
		// no credentials are ever sent by the generated requests
		return False
	case "path_beg", "path_dir", "path_end", "path_sub", "path_reg", "path_dom":
		m := strings.TrimPrefix(name, "path_")
		for _, p := range patterns {
			if matchOne(m, e.req.Path, p, icase) {
				return True
			}
		}
		return False
	case "hdr_beg", "hdr_end", "hdr_sub", "hdr_reg", "hdr_dir", "hdr_dom":
		v := e.fetch("hdr(" + args + ")")
		if !v.Found {
			return False
		}
		m := strings.TrimPrefix(name, "hdr_")
		for _, p := range patterns {
			if matchOne(m, v.S, p, icase) {
				return True
			}
		}
		return False
	case "so_id", "src", "sc1_conn_cur", "sc1_conn_rate", "ssl_c_used", "ssl_c_verify", "nbsrv", "always_false", "always_true":
		if name == "always_false" {
			return False
		}
		if name == "always_true" {
			return True
		}
		e.unknown("acl fetch " + name)
		return Unknown
	}
	v := e.sample(fetch)
	if v.Unknown {
		e.unknown("acl: " + v.S)
		return Unknown
	}
	if method == "" {
		method = "str"
	}
	switch method {
	case "found":
		if v.Found {
			return True
		}
		return False
	case "bool":
		if v.Found && v.S != "" && v.S != "0" {
			return True
		}
		return False
	case "int":
		e.unknown("acl -m int")
		return Unknown
	case "str", "beg", "end", "sub", "dir", "reg", "dom":
		if !v.Found {
			return False
		}
		for _, p := range patterns {
			if matchOne(method, v.S, p, icase) {
				return True
			}
		}
		return False
	}
	e.unknown("acl method " + method)
	return Unknown
}

func (e *evalCtx) namedACL(name string) Tri {
	switch name {
	case "TRUE":
		return True
	case "FALSE":
		return False
	case "METH_OPTIONS":
		return boolTri(e.method() == "OPTIONS")
	case "METH_GET":
		return boolTri(e.method() == "GET" || e.method() == "HEAD")
	case "METH_POST":
		return boolTri(e.method() == "POST")
	case "HTTP":
		return True
	}
	res := False
	found := false
	for _, l := range e.sec.Lines {
		if l.Tok[0] == "acl" && len(l.Tok) > 2 && l.Tok[1] == name {
			found = true
			res = triOr(res, e.aclExpr(l.Tok[2:]))
		}
	}
	if !found {
		e.unknown("undefined acl " + name)
		return Unknown
	}
	return res
}

func boolTri(b bool) Tri {
	if b {
		return True
	}
	return False
}

// cond evaluates the tokens following if/unless (AND of terms, || separates alternatives).
func (e *evalCtx) cond(tok []string) Tri {
	result := False
	cur := True
	i := 0
	for i < len(tok) {
		t := tok[i]
		switch {
		case t == "||" || t == "or":
			result = triOr(result, cur)
			cur = True
			i++
		case t == "{" || t == "!{" || (t == "!" && i+1 < len(tok) && tok[i+1] == "{"):
			neg := strings.HasPrefix(t, "!")
			if t == "!" {
				i++
			}
			j := i + 1
			for j < len(tok) && tok[j] != "}" {
				j++
			}
			v := e.aclExpr(tok[i+1 : j])
			if neg {
				v = triNot(v)
			}
			cur = triAnd(cur, v)
			i = j + 1
		case t == "!" && i+1 < len(tok):
			cur = triAnd(cur, triNot(e.namedACL(tok[i+1])))
			i += 2
		case strings.HasPrefix(t, "!"):
			cur = triAnd(cur, triNot(e.namedACL(t[1:])))
			i++
		default:
			cur = triAnd(cur, e.namedACL(t))
			i++
		}
	}
	return triOr(result, cur)
}

// splitCond separates the action tokens from the condition.
func splitCond(tok []string) (action []string, cond []string, unless bool) {
	depth := 0
	for i, t := range tok {
		if t == "{" || t == "!{" {
			depth++
		}
		if t == "}" {
			depth--
		}
		if depth == 0 && (t == "if" || t == "unless") {
			return tok[:i], tok[i+1:], t == "unless"
		}
	}
	return tok, nil, false
}

func (e *evalCtx) lineCond(condTok []string, unless bool) Tri {
	if condTok == nil {
		return True
	}
	v := e.cond(condTok)
	if unless {
		v = triNot(v)
	}
	return v
}

var logFmtVar = regexp.MustCompile(`%\[([^\]]*)\]`)

// logFormat expands %[sample] occurrences.
func (e *evalCtx) logFormat(s string) (string, bool) {
	ok := true
	out := logFmtVar.ReplaceAllStringFunc(s, func(m string) string {
		v := e.sample(m[2 : len(m)-1])
		if v.Unknown {
			ok = false
			return ""
		}
		if !v.Found {
			return ""
		}
		return v.S
	})
	return out, ok
}

var terminalActions = map[string]bool{
	"deny": true, "redirect": true, "auth": true, "use-service": true, "silent-drop": true,
	"return": true, "tarpit": true, "reject": true,
}

// runRules executes the http-request (or tcp-request content) rules of a section.
// It returns the terminal action, if one fired.
func (e *evalCtx) runRules(sec *Section) *Action {
	e.sec = sec
	for _, l := range sec.Lines {
		tok := l.Tok
		var body []string
		switch {
		case tok[0] == "http-request" && len(tok) > 1:
			body = tok[1:]
		case tok[0] == "tcp-request" && len(tok) > 2 && tok[1] == "content":
			body = tok[2:]
		case tok[0] == "redirect":
			// legacy `redirect` directive: evaluated with http-request rules
			body = tok
		default:
			continue
		}
		action, condTok, unless := splitCond(body)
		if len(action) == 0 {
			continue
		}
		verb := action[0]
		setVar := strings.HasPrefix(verb, "set-var(")
		relevant := setVar || terminalActions[verb] || strings.HasPrefix(verb, "lua.") || verb == "replace-path" || verb == "set-path"
		if !relevant {
			// not needed for routing: only note whether it applies (normal form)
			saved := len(e.res.Unknowns)
			c := e.lineCond(condTok, unless)
			e.res.Unknowns = e.res.Unknowns[:saved]
			e.noteApplied(sec, tok[0], action, condTok, unless, c)
			continue
		}
		c := e.lineCond(condTok, unless)
		if !setVar {
			e.noteApplied(sec, tok[0], action, condTok, unless, c)
		}
		if c == Unknown {
			e.unknown(fmt.Sprintf("condition of %q in %s", l.Raw, sec.Name))
			if setVar {
				_, name, _ := nameArgs(verb)
				_ = name
				n := verb[len("set-var(") : len(verb)-1]
				e.vars[n] = Val{Unknown: true, S: "conditional set-var"}
			}
			continue
		}
		if c == False {
			continue
		}
		switch {
		case setVar:
			n := verb[len("set-var(") : len(verb)-1]
			if len(action) < 2 {
				continue
			}
			v := e.sample(action[1])
			if v.Unknown {
				e.unknown("set-var " + n + ": " + v.S)
			}
			if !v.Found && !v.Unknown {
				// a failed expression leaves the variable untouched
				e.res.Trace = append(e.res.Trace, fmt.Sprintf("%s: %s -> (no match)", sec.Name, l.Raw))
				continue
			}
			e.vars[n] = v
			e.res.Trace = append(e.res.Trace, fmt.Sprintf("%s: %s -> %q", sec.Name, l.Raw, v.S))
		case terminalActions[verb]:
			e.res.Trace = append(e.res.Trace, fmt.Sprintf("%s: FINAL %s", sec.Name, l.Raw))
			return &Action{Section: sec.Name, Kind: verb, Raw: l.Raw, Tok: action}
		default:
			e.res.Effects = append(e.res.Effects, Effect{Section: sec.Name, Kind: verb, Raw: l.Raw, Tok: action})
			e.res.Trace = append(e.res.Trace, fmt.Sprintf("%s: EFFECT %s", sec.Name, l.Raw))
		}
	}
	return nil
}

// noteApplied records a rule that applies to the request in a form that does not
// depend on path-id numbering: `{ var(txn.pathID) -m str ... }` terms are dropped
// when they hold; conditions that cannot be decided are kept verbatim behind "?".
func (e *evalCtx) noteApplied(sec *Section, kw string, action, condTok []string, unless bool, c Tri) {
	if c == False {
		return
	}
	line := sec.Name + ": " + kw + " " + strings.Join(action, " ")
	if c == Unknown {
		word := " ?if "
		if unless {
			word = " ?unless "
		}
		line += word + strings.Join(stripPathID(condTok), " ")
	}
	e.res.Applied = append(e.res.Applied, line)
}

// stripPathID removes `{ var(txn.pathID) -m str ids... }` terms from a condition.
func stripPathID(tok []string) []string {
	var out []string
	for i := 0; i < len(tok); i++ {
		if (tok[i] == "{" || tok[i] == "!{") && i+1 < len(tok) && tok[i+1] == "var(txn.pathID)" {
			j := i
			for j < len(tok) && tok[j] != "}" {
				j++
			}
			out = append(out, tok[i]+"pathID}")
			i = j
			continue
		}
		out = append(out, tok[i])
	}
	return out
}

// responseRules notes which http-response rules apply (conditions are evaluated
// with request-time knowledge only).
func (e *evalCtx) responseRules(sec *Section) {
	e.sec = sec
	for _, l := range sec.Lines {
		if l.Tok[0] != "http-response" || len(l.Tok) < 2 {
			continue
		}
		action, condTok, unless := splitCond(l.Tok[1:])
		saved := len(e.res.Unknowns)
		c := e.lineCond(condTok, unless)
		e.res.Unknowns = e.res.Unknowns[:saved]
		e.noteApplied(sec, l.Tok[0], action, condTok, unless, c)
	}
}

// switchBackend applies use_backend / default_backend.
func (e *evalCtx) switchBackend(sec *Section) (string, bool) {
	e.sec = sec
	def := ""
	for _, l := range sec.Lines {
		if l.Tok[0] == "default_backend" && len(l.Tok) > 1 {
			def = l.Tok[1]
		}
	}
	for _, l := range sec.Lines {
		if l.Tok[0] != "use_backend" || len(l.Tok) < 2 {
			continue
		}
		_, condTok, unless := splitCond(l.Tok[2:])
		c := e.lineCond(condTok, unless)
		if c == Unknown {
			e.unknown("condition of " + l.Raw)
			return "", false
		}
		if c == False {
			continue
		}
		name := l.Tok[1]
		if strings.Contains(name, "%[") {
			exp, ok := e.logFormat(name)
			if !ok {
				e.unknown("use_backend expression " + name)
				return "", false
			}
			e.res.Trace = append(e.res.Trace, fmt.Sprintf("%s: %s -> %q", sec.Name, l.Raw, exp))
			if e.c.Backend(exp) == nil {
				// unresolvable dynamic name: HAProxy stops evaluating and uses default_backend
				return def, def != ""
			}
			return exp, true
		}
		e.res.Trace = append(e.res.Trace, fmt.Sprintf("%s: %s", sec.Name, l.Raw))
		return name, true
	}
	return def, def != ""
}

// FrontendFor picks the frontend that receives the request: the one bound with
// `ssl` for https, `_front_http` otherwise. ok=false when it cannot be decided.
func (c *Config) FrontendFor(https bool) (*Section, string) {
	if !https {
		if s := c.Frontend("_front_http"); s != nil {
			return s, ""
		}
		return nil, "no _front_http"
	}
	var cands []*Section
	for _, s := range c.Sections {
		if s.Kind != "frontend" || !strings.HasPrefix(s.Name, "_front_https") {
			continue
		}
		cands = append(cands, s)
	}
	if len(cands) == 1 {
		return cands[0], ""
	}
	// ssl-passthrough layout: a tcp frontend plus the local http one
	for _, s := range cands {
		for _, l := range s.Lines {
			if l.Tok[0] == "mode" && len(l.Tok) > 1 && l.Tok[1] == "tcp" {
				return s, ""
			}
		}
	}
	return nil, "cannot choose https frontend"
}

// Route sends one request through the loaded configuration.
func (c *Config) Route(req Request) *Result {
	res := &Result{Vars: map[string]Val{}}
	e := &evalCtx{c: c, req: req, vars: res.Vars, res: res}
	if req.HTTPS && req.SNI == "" {
		h := req.Host
		if i := strings.Index(h, ":"); i >= 0 {
			h = h[:i]
		}
		e.req.SNI = strings.ToLower(h)
	}
	fe, why := c.FrontendFor(req.HTTPS)
	if fe == nil {
		e.unknown(why)
		return res
	}
	for hops := 0; hops < 3; hops++ {
		res.Frontend = fe.Name
		if a := e.runRules(fe); a != nil {
			res.Final = a
			return res
		}
		name, ok := e.switchBackend(fe)
		if !ok {
			if !res.Inconclusive() {
				e.unknown("no backend selected in " + fe.Name)
			}
			return res
		}
		be := c.Backend(name)
		if be == nil {
			e.unknown("backend " + name + " not found")
			res.Backend = name
			return res
		}
		// bridge backend to a local frontend (ssl-passthrough layout)?
		if next := c.bridgeTarget(be); next != nil {
			fe = next
			continue
		}
		res.Backend = be.Name
		if a := e.runRules(be.Section); a != nil {
			res.Final = a
			return res
		}
		e.responseRules(be.Section)
		e.useServer(be)
		return res
	}
	e.unknown("too many frontend hops")
	return res
}

// bridgeTarget detects a backend whose only server is the unix socket some
// frontend of this configuration binds; returns that frontend.
func (c *Config) bridgeTarget(be *Backend) *Section {
	if len(be.Servers) != 1 || !strings.HasPrefix(be.Servers[0].Target, "unix@") {
		return nil
	}
	sock := be.Servers[0].Target
	for _, s := range c.Sections {
		if s.Kind != "frontend" {
			continue
		}
		for _, l := range s.Lines {
			if l.Tok[0] == "bind" && len(l.Tok) > 1 && l.Tok[1] == sock {
				return s
			}
		}
	}
	return nil
}

func (e *evalCtx) useServer(be *Backend) {
	e.sec = be.Section
	for _, l := range be.Lines {
		if l.Tok[0] != "use-server" || len(l.Tok) < 2 {
			continue
		}
		_, condTok, unless := splitCond(l.Tok[2:])
		c := e.lineCond(condTok, unless)
		if c == Unknown {
			e.unknown("condition of " + l.Raw)
			return
		}
		if c == True {
			for _, s := range be.Servers {
				if s.Name == l.Tok[1] {
					e.res.Servers = []*Server{s}
					return
				}
			}
		}
	}
}

// SelectCert returns the certificate file the given crt-list selects for an SNI
// (HAProxy lookup: exact filter, then one-label wildcard filter, else the first
// line = bind default). Negative filters (!x) never select.
func SelectCert(entries []CrtListEntry, sni string) string {
	sni = strings.ToLower(sni)
	if len(entries) == 0 {
		return ""
	}
	for _, e := range entries {
		for _, f := range e.Filters {
			if !strings.HasPrefix(f, "!") && !strings.HasPrefix(f, "*") && strings.ToLower(f) == sni {
				return e.File
			}
		}
	}
	if i := strings.Index(sni, "."); i > 0 {
		suffix := sni[i:]
		for _, e := range entries {
			for _, f := range e.Filters {
				if strings.HasPrefix(f, "*.") && strings.ToLower(f[1:]) == suffix {
					return e.File
				}
			}
		}
	}
	return entries[0].File
}
