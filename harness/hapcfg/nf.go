package hapcfg

import (
	"fmt"
	"regexp"
	"sort"
	"strings"
)

// NF is the behavioural normal form of a written configuration: what a client
// can observe, with internal labels (slot names, empty slots, path ids, priority
// map numbering, temp dir) removed.
type NF struct {
	Global   []string
	Routes   map[string]string   // request -> routing outcome and applicable rules
	Backends map[string][]string // backend -> static lines and servers
	Others   map[string][]string // other sections -> static lines
	Certs    map[string]string   // "<frontend>|<sni>" -> certificate identity + bind options
	Incon    int                 // inconclusive routes
}

// NFOptions ...
type NFOptions struct {
	Dir      string                   // directory prefix to hide
	Requests []Request                // request alphabet
	SNIs     []string                 // SNI alphabet
	CertID   func(file string) string // identity of a certificate file (fingerprint); nil = file name
}

var authBackRe = regexp.MustCompile(`_auth_backend\d+_`)

func (o *NFOptions) norm(s string) string {
	if o.Dir != "" {
		s = strings.ReplaceAll(s, o.Dir, "$D")
	}
	return s
}

func isEmptySlot(s *Server) bool {
	return s.Disabled && s.Target == "127.0.0.1:1023"
}

func serverNF(s *Server, withName bool) string {
	var sb strings.Builder
	if withName {
		sb.WriteString(s.Name + " ")
	}
	fmt.Fprintf(&sb, "%s weight=%d", s.Target, s.Weight)
	if s.Disabled {
		sb.WriteString(" disabled")
	}
	if s.Cookie != "" && s.Cookie != s.Name {
		sb.WriteString(" cookie=" + s.Cookie)
	}
	if s.ID != "" {
		sb.WriteString(" id=" + s.ID)
	}
	if len(s.Rest) > 0 {
		sb.WriteString(" " + strings.Join(s.Rest, " "))
	}
	return sb.String()
}

// BackendNF returns the static lines and the server multiset of a backend.
func (c *Config) BackendNF(b *Backend, o *NFOptions) []string {
	var out []string
	byName := map[string]*Server{}
	for _, s := range b.Servers {
		byName[s.Name] = s
	}
	for _, l := range b.Lines {
		switch l.Tok[0] {
		case "http-request", "http-response", "server":
			continue
		case "use-server":
			line := "use-server ?"
			if len(l.Tok) > 1 {
				if s := byName[l.Tok[1]]; s != nil {
					line = "use-server " + s.Target
				}
				line += " " + strings.Join(l.Tok[2:], " ")
			}
			out = append(out, line)
			continue
		}
		out = append(out, o.norm(strings.Join(l.Tok, " ")))
	}
	var servers []string
	named := strings.HasPrefix(b.Name, "_") // support backends: names are part of the template
	for _, s := range b.Servers {
		if isEmptySlot(s) {
			continue
		}
		servers = append(servers, "server "+o.norm(serverNF(s, named)))
	}
	sort.Strings(servers)
	return append(out, servers...)
}

func (c *Config) sectionNF(s *Section, o *NFOptions) []string {
	var out []string
	for _, l := range s.Lines {
		if s.Kind == "frontend" {
			switch l.Tok[0] {
			case "http-request", "http-response", "use_backend", "default_backend":
				if s.Name == "_front_http" || strings.HasPrefix(s.Name, "_front_https") {
					continue // captured behaviourally by the routes
				}
			}
		}
		out = append(out, o.norm(strings.Join(l.Tok, " ")))
	}
	return out
}

func (e *evalCtx) expand(tok []string) string {
	parts := make([]string, len(tok))
	for i, t := range tok {
		if strings.Contains(t, "%[") {
			if x, ok := e.logFormat(t); ok {
				t = x
			}
		}
		parts[i] = t
	}
	return strings.Join(parts, " ")
}

// RouteNF describes the outcome of a request in normal form.
func (c *Config) RouteNF(req Request, o *NFOptions) (string, *Result) {
	r := c.Route(req)
	var sb strings.Builder
	sb.WriteString("frontend=" + r.Frontend + " backend=" + r.Backend)
	if r.Final != nil {
		e := &evalCtx{c: c, req: req, vars: r.Vars, res: r}
		sb.WriteString(" final=[" + r.Final.Section + ": " + o.norm(e.expand(r.Final.Tok)) + "]")
	}
	if len(r.Servers) > 0 {
		sb.WriteString(" use-server=" + r.Servers[0].Target)
	}
	if r.Inconclusive() {
		sb.WriteString(" inconclusive=[" + o.norm(strings.Join(r.Unknowns, "; ")) + "]")
	}
	for _, a := range r.Applied {
		sb.WriteString("\n      " + o.norm(a))
	}
	return sb.String(), r
}

// BuildNF computes the normal form.
func (c *Config) BuildNF(o *NFOptions) *NF {
	nf := &NF{Routes: map[string]string{}, Backends: map[string][]string{}, Others: map[string][]string{}, Certs: map[string]string{}}
	reached := map[string]bool{}
	for _, rq := range o.Requests {
		s, r := c.RouteNF(rq, o)
		nf.Routes[rq.String()] = s
		if r.Inconclusive() {
			nf.Incon++
		}
		if r.Backend != "" {
			reached[r.Backend] = true
		}
	}
	userlists := map[string]bool{}
	for _, s := range c.Sections {
		switch s.Kind {
		case "global", "defaults":
			for _, l := range c.sectionNF(s, o) {
				nf.Global = append(nf.Global, s.Kind+": "+l)
			}
		case "backend":
			// handled below
		case "userlist":
			// only when referenced
		default:
			nf.Others[s.Kind+" "+s.Name] = append(nf.Others[s.Kind+" "+s.Name], c.sectionNF(s, o)...)
			// the maps of a tcp frontend (SNI hostname -> backend) are its routing table: no http request of the
			// alphabet goes through them, so their entries are part of the section's normal form
			if s.Kind == "frontend" && strings.HasPrefix(s.Name, "_front_tcp_") {
				for _, l := range s.Lines {
					for _, t := range l.Tok {
						for _, item := range splitTop(t, ',') {
							name, args, ok := nameArgs(item)
							if !ok || !strings.HasPrefix(name, "map") {
								continue
							}
							file := splitTop(args, ',')[0]
							mm := c.Map(file)
							if mm.Err != nil {
								nf.Others[s.Kind+" "+s.Name] = append(nf.Others[s.Kind+" "+s.Name], "map "+o.norm(file)+": unreadable")
								continue
							}
							var entries []string
							for _, en := range mm.Entries {
								entries = append(entries, "map "+o.norm(file)+": "+en.Key+" -> "+en.Value)
							}
							sort.Strings(entries)
							nf.Others[s.Kind+" "+s.Name] = append(nf.Others[s.Kind+" "+s.Name], entries...)
						}
					}
				}
			}
			// tcp frontends and auth proxies reach backends statically
			for _, l := range s.Lines {
				if (l.Tok[0] == "use_backend" || l.Tok[0] == "default_backend") && len(l.Tok) > 1 && !strings.Contains(l.Tok[1], "%[") {
					if s.Name != "_front_http" && !strings.HasPrefix(s.Name, "_front_https") {
						reached[l.Tok[1]] = true
					}
				}
			}
		}
	}
	for _, b := range c.Backends {
		if b.Kind != "backend" || !reached[b.Name] {
			continue
		}
		lines := c.BackendNF(b, o)
		nf.Backends[b.Name] = append(nf.Backends[b.Name], lines...)
		for _, l := range b.Lines {
			for _, t := range l.Tok {
				if strings.HasPrefix(t, "http_auth(") {
					userlists[strings.TrimSuffix(strings.TrimPrefix(t, "http_auth("), ")")] = true
				}
			}
		}
	}
	for _, s := range c.Sections {
		if s.Kind == "userlist" && userlists[s.Name] {
			lines := c.sectionNF(s, o)
			sort.Strings(lines)
			nf.Others["userlist "+s.Name] = append(nf.Others["userlist "+s.Name], lines...)
		}
	}
	certID := o.CertID
	if certID == nil {
		certID = func(f string) string { return f }
	}
	for fe, lists := range c.BindCrtLists() {
		for _, lf := range lists {
			entries, err := c.CrtList(lf)
			if err != nil {
				nf.Certs[fe+"|<error>"] = o.norm(err.Error())
				continue
			}
			for _, sni := range o.SNIs {
				f := SelectCert(entries, sni)
				opts := ""
				for _, en := range entries {
					if en.File == f {
						for _, flt := range en.Filters {
							if strings.EqualFold(flt, sni) {
								opts = o.norm(strings.Join(en.Options, " "))
							}
						}
					}
				}
				nf.Certs[fe+"|"+sni] = certID(f) + " [" + opts + "]"
			}
		}
	}
	return nf
}

func diffMap(kind string, a, b map[string]string, out *[]string) {
	keys := map[string]bool{}
	for k := range a {
		keys[k] = true
	}
	for k := range b {
		keys[k] = true
	}
	var ks []string
	for k := range keys {
		ks = append(ks, k)
	}
	sort.Strings(ks)
	for _, k := range ks {
		if a[k] != b[k] {
			*out = append(*out, fmt.Sprintf("%s %s:%s", kind, k, lineDiff(a[k], b[k])))
		}
	}
}

// lineDiff shows the first line of both sides and the lines only one side has.
func lineDiff(a, b string) string {
	al, bl := strings.Split(a, "\n"), strings.Split(b, "\n")
	var sb strings.Builder
	if al[0] != bl[0] {
		fmt.Fprintf(&sb, "\n   A: %s\n   B: %s", al[0], bl[0])
	} else {
		fmt.Fprintf(&sb, "\n   both: %s", al[0])
	}
	inA, inB := map[string]int{}, map[string]int{}
	for _, l := range al[1:] {
		inA[l]++
	}
	for _, l := range bl[1:] {
		inB[l]++
	}
	for _, l := range al[1:] {
		if inB[l] == 0 {
			fmt.Fprintf(&sb, "\n   only A: %s", strings.TrimSpace(l))
		}
	}
	for _, l := range bl[1:] {
		if inA[l] == 0 {
			fmt.Fprintf(&sb, "\n   only B: %s", strings.TrimSpace(l))
		}
	}
	return sb.String()
}

func diffLines(kind string, a, b map[string][]string, out *[]string) {
	am, bm := map[string]string{}, map[string]string{}
	for k, v := range a {
		am[k] = strings.Join(v, "\n      ")
	}
	for k, v := range b {
		bm[k] = strings.Join(v, "\n      ")
	}
	diffMap(kind, am, bm, out)
}

// Diff lists the differences between two normal forms (empty = behaviourally identical).
func (a *NF) Diff(b *NF) []string {
	var out []string
	if strings.Join(a.Global, "\n") != strings.Join(b.Global, "\n") {
		out = append(out, "global/defaults:\n   A: "+strings.Join(a.Global, "\n      ")+"\n   B: "+strings.Join(b.Global, "\n      "))
	}
	diffMap("route", a.Routes, b.Routes, &out)
	diffLines("backend", a.Backends, b.Backends, &out)
	diffLines("section", a.Others, b.Others, &out)
	diffMap("certificate", a.Certs, b.Certs, &out)
	return out
}
