package hapcfg

import (
	"fmt"
	"strings"
)

// LintIssue is one reference-integrity problem HAProxy would refuse to load
// (or that would make a reference dangle at run time).
type LintIssue struct {
	Kind string // short class, used as part of the failure signature
	Msg  string
}

// LintStats counts the reference kinds that were checked (non-vacuity).
type LintStats struct {
	StaticBackendRefs int
	MapBackendRefs    int
	UserlistRefs      int
	FileRefs          int
	PathIDRefs        int
	Servers           int
	AuthProxyBinds    int
	TCPFrontends      int
	LuaAuthRefs       int
}

// Kinds returns how many different kinds of references were present.
func (s LintStats) Kinds() int {
	n := 0
	for _, v := range []int{s.StaticBackendRefs, s.MapBackendRefs, s.UserlistRefs, s.FileRefs, s.PathIDRefs, s.AuthProxyBinds, s.TCPFrontends, s.LuaAuthRefs} {
		if v > 0 {
			n++
		}
	}
	return n
}

func exists(path string) bool {
	_, err := ReadFile(path)
	return err == nil
}

// Lint checks every symbolic reference of the loaded configuration.
func (c *Config) Lint() ([]LintIssue, LintStats) {
	var out []LintIssue
	var st LintStats
	add := func(kind, format string, args ...interface{}) {
		out = append(out, LintIssue{Kind: kind, Msg: fmt.Sprintf(format, args...)})
	}
	for _, e := range c.Errors {
		add("parse", "%s", e)
	}
	// section names unique per capability
	backNames, frontNames, ulNames := map[string]int{}, map[string]int{}, map[string]int{}
	for _, s := range c.Sections {
		switch s.Kind {
		case "backend":
			backNames[s.Name]++
		case "frontend":
			frontNames[s.Name]++
		case "listen":
			backNames[s.Name]++
			frontNames[s.Name]++
		case "userlist":
			ulNames[s.Name]++
		}
	}
	for n, k := range backNames {
		if k > 1 {
			add("duplicate-backend", "backend %q is defined %d times", n, k)
		}
	}
	for n, k := range frontNames {
		if k > 1 {
			add("duplicate-frontend", "frontend %q is defined %d times", n, k)
		}
	}
	for n, k := range ulNames {
		if k > 1 {
			add("duplicate-userlist", "userlist %q is defined %d times", n, k)
		}
	}
	bindPorts := map[string]string{}
	for _, s := range c.Sections {
		varMaps := map[string][]string{} // variable -> map files whose values feed it
		for _, l := range s.Lines {
			tok := l.Tok
			// files referenced by converters and ACL -f
			for i, t := range tok {
				for _, item := range splitTop(t, ',') {
					name, args, ok := nameArgs(item)
					if ok && strings.HasPrefix(name, "map") {
						f := splitTop(args, ',')[0]
						st.FileRefs++
						if !exists(f) {
							add("missing-map-file", "%s %s: map file %s does not exist (%s)", s.Kind, s.Name, f, l.Raw)
						}
					}
				}
				if (t == "-f" || t == "crt-list" || t == "ca-file" || t == "crl-file" || t == "crt") && i+1 < len(tok) && strings.HasPrefix(tok[i+1], "/") {
					st.FileRefs++
					if !exists(tok[i+1]) {
						add("missing-file", "%s %s: file %s does not exist (%s)", s.Kind, s.Name, tok[i+1], l.Raw)
					}
				}
				if strings.HasPrefix(t, "http_auth(") {
					ul := strings.TrimSuffix(strings.TrimPrefix(t, "http_auth("), ")")
					st.UserlistRefs++
					if ulNames[ul] == 0 {
						add("missing-userlist", "%s %s references userlist %q which is not defined (%s)", s.Kind, s.Name, ul, l.Raw)
					}
				}
			}
			switch {
			case (tok[0] == "http-request" || (tok[0] == "tcp-request" && len(tok) > 2 && tok[1] == "content")) && len(tok) > 2:
				body := tok[1:]
				if tok[0] == "tcp-request" {
					body = tok[2:]
				}
				if strings.HasPrefix(body[0], "set-var(") && len(body) > 1 {
					v := body[0][len("set-var(") : len(body[0])-1]
					for _, item := range splitTop(body[1], ',') {
						name, args, ok := nameArgs(item)
						if ok && strings.HasPrefix(name, "map") {
							varMaps[v] = append(varMaps[v], splitTop(args, ',')[0])
						}
					}
				}
				if body[0] == "lua.auth-intercept" && len(body) > 1 {
					st.LuaAuthRefs++
					if backNames[body[1]] == 0 {
						add("missing-auth-backend", "%s %s: lua.auth-intercept names backend %q which does not exist", s.Kind, s.Name, body[1])
					}
				}
			case tok[0] == "bind" && len(tok) > 1:
				addr := tok[1]
				if !strings.HasPrefix(addr, "unix@") {
					if prev, dup := bindPorts[addr]; dup {
						add("duplicate-bind", "address %s is bound by %s and by %s", addr, prev, s.Name)
					}
					bindPorts[addr] = s.Name
				}
				if strings.HasPrefix(s.Name, "_front__auth") {
					st.AuthProxyBinds++
				}
				if strings.HasPrefix(s.Name, "_front_tcp_") {
					st.TCPFrontends++
				}
			}
		}
		// backend switching
		for _, l := range s.Lines {
			tok := l.Tok
			if (tok[0] != "use_backend" && tok[0] != "default_backend") || len(tok) < 2 {
				continue
			}
			name := tok[1]
			if !strings.Contains(name, "%[") {
				st.StaticBackendRefs++
				if backNames[name] == 0 {
					add("missing-backend", "%s %s: %s names backend %q which is not defined", s.Kind, s.Name, tok[0], name)
				}
				continue
			}
			m := logFmtVar.FindStringSubmatch(name)
			if m == nil {
				continue
			}
			vname, vargs, ok := nameArgs(strings.TrimSpace(m[1]))
			if !ok || vname != "var" {
				continue
			}
			for _, mf := range varMaps[vargs] {
				mm := c.Map(mf)
				if mm.Err != nil {
					continue
				}
				for _, en := range mm.Entries {
					st.MapBackendRefs++
					if backNames[en.Value] == 0 {
						add("missing-backend-in-map", "%s %s: map %s sends %q to backend %q which is not defined", s.Kind, s.Name, mf, en.Key, en.Value)
					}
				}
			}
		}
		// auth proxy socket ids unique
		if strings.HasPrefix(s.Name, "_front__auth") {
			ids := map[string]bool{}
			for _, l := range s.Lines {
				if l.Tok[0] == "bind" {
					for i, t := range l.Tok {
						if t == "id" && i+1 < len(l.Tok) {
							if ids[l.Tok[i+1]] {
								add("duplicate-socket-id", "frontend %s uses socket id %s twice", s.Name, l.Tok[i+1])
							}
							ids[l.Tok[i+1]] = true
						}
					}
				}
			}
		}
	}
	// backends: servers, ids, path ids
	for _, b := range c.Backends {
		names, ids := map[string]bool{}, map[string]bool{}
		for _, sv := range b.Servers {
			st.Servers++
			if names[sv.Name] {
				add("duplicate-server-name", "backend %s has two servers named %s", b.Name, sv.Name)
			}
			names[sv.Name] = true
			if sv.ID != "" {
				if ids[sv.ID] {
					add("duplicate-server-id", "backend %s has two servers with id %s", b.Name, sv.ID)
				}
				ids[sv.ID] = true
			}
		}
		known := map[string]bool{}
		var idMaps []string
		for _, l := range b.Lines {
			if l.Tok[0] == "http-request" && len(l.Tok) > 2 && l.Tok[1] == "set-var(txn.pathID)" {
				for _, item := range splitTop(l.Tok[2], ',') {
					name, args, ok := nameArgs(item)
					if ok && strings.HasPrefix(name, "map") {
						idMaps = append(idMaps, splitTop(args, ',')[0])
					}
				}
			}
			if l.Tok[0] == "use-server" && len(l.Tok) > 1 && !names[l.Tok[1]] {
				add("missing-server", "backend %s: use-server names %q which is not a server of the backend", b.Name, l.Tok[1])
			}
		}
		for _, mf := range idMaps {
			mm := c.Map(mf)
			if mm.Err == nil {
				for _, en := range mm.Entries {
					known[en.Value] = true
				}
			}
		}
		for _, l := range b.Lines {
			tok := l.Tok
			for i := 0; i+3 < len(tok); i++ {
				if tok[i] == "var(txn.pathID)" && tok[i+1] == "-m" && tok[i+2] == "str" {
					for j := i + 3; j < len(tok) && tok[j] != "}"; j++ {
						st.PathIDRefs++
						if !known[tok[j]] {
							add("dangling-path-id", "backend %s: rule refers to path id %s which no id map of the backend produces (%s)", b.Name, tok[j], l.Raw)
						}
					}
				}
			}
		}
	}
	// certificates named by crt-lists
	for fe, lists := range c.BindCrtLists() {
		for _, lf := range lists {
			entries, err := c.CrtList(lf)
			if err != nil {
				add("missing-crt-list", "frontend %s: crt-list %s: %v", fe, lf, err)
				continue
			}
			for _, e := range entries {
				st.FileRefs++
				if !exists(e.File) {
					add("missing-certificate", "crt-list %s names certificate %s which does not exist", lf, e.File)
				}
				for i, o := range e.Options {
					if (o == "ca-file" || o == "crl-file") && i+1 < len(e.Options) {
						st.FileRefs++
						if !exists(e.Options[i+1]) {
							add("missing-file", "crt-list %s names %s %s which does not exist", lf, o, e.Options[i+1])
						}
					}
				}
			}
		}
	}
	return out, st
}
