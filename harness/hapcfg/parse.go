// Package hapcfg reads the configuration the controller writes (cfg files, map
// and list files) and evaluates the directive subset the template emits.
package hapcfg

import (
	"fmt"
	"os"
	"path/filepath"
	"sort"
	"strconv"
	"strings"
)

// Line is one directive of a section.
type Line struct {
	Raw    string
	Tok    []string
	LineNo int
}

// Section is a proxy or other top-level block.
type Section struct {
	Kind  string // global, defaults, userlist, backend, frontend, listen, resolvers, ...
	Name  string
	File  string
	Lines []Line
}

// Server line of a backend.
type Server struct {
	Name     string
	Addr     string
	Port     int
	Target   string // raw address token
	Weight   int
	Disabled bool
	Cookie   string
	ID       string
	Rest     []string // other options, in order
}

// Backend view of a backend/listen section.
type Backend struct {
	*Section
	Mode       string
	Servers    []*Server
	CookieLine []string
}

// Config is everything HAProxy would load from the directory.
type Config struct {
	Dir      string
	Files    []string
	Sections []*Section
	Backends []*Backend
	Errors   []string
	maps     map[string]*MapFile
}

var sectionKinds = map[string]bool{
	"global": true, "defaults": true, "userlist": true, "backend": true, "frontend": true,
	"listen": true, "resolvers": true, "peers": true, "cache": true, "program": true, "mailers": true,
}

// Tokenize splits a configuration line the way HAProxy does: blanks separate
// words, backslash escapes the next character, single and double quotes group,
// an unescaped, unquoted # starts a comment.
func Tokenize(line string) []string {
	var toks []string
	var cur strings.Builder
	inTok := false
	quote := byte(0)
	for i := 0; i < len(line); i++ {
		c := line[i]
		switch {
		case quote == '\'':
			if c == '\'' {
				quote = 0
			} else {
				cur.WriteByte(c)
			}
		case quote == '"':
			if c == '"' {
				quote = 0
			} else if c == '\\' && i+1 < len(line) {
				i++
				cur.WriteByte(unescape(line[i]))
			} else {
				cur.WriteByte(c)
			}
		case c == '\\' && i+1 < len(line):
			i++
			cur.WriteByte(unescape(line[i]))
			inTok = true
		case c == '\'' || c == '"':
			quote = c
			inTok = true
		case c == '#':
			if inTok {
				toks = append(toks, cur.String())
			}
			return toks
		case c == ' ' || c == '\t' || c == '\r' || c == '\n':
			if inTok {
				toks = append(toks, cur.String())
				cur.Reset()
				inTok = false
			}
		default:
			cur.WriteByte(c)
			inTok = true
		}
	}
	if inTok {
		toks = append(toks, cur.String())
	}
	return toks
}

func unescape(c byte) byte {
	switch c {
	case 'n':
		return '\n'
	case 't':
		return '\t'
	case 'r':
		return '\r'
	}
	return c
}

// ReadFile reads a file the way the HAProxy process would see it. The fault
// injector of the checks makes a *write* fail by putting a directory in the
// place of the target and keeping the previous content in <name>.orig; a reader
// must still see that previous content (a failed write leaves the old file).
func ReadFile(path string) ([]byte, error) {
	if st, err := os.Stat(path); err == nil && st.IsDir() {
		return os.ReadFile(path + ".orig")
	}
	return os.ReadFile(path)
}

// LoadDir parses haproxy.cfg and every other *.cfg of dir in name order, which
// is what `haproxy -f <dir>` loads.
func LoadDir(dir string) (*Config, []string) {
	c := &Config{Dir: dir, maps: map[string]*MapFile{}}
	entries, err := os.ReadDir(dir)
	if err != nil {
		c.Errors = append(c.Errors, err.Error())
		return c, c.Errors
	}
	var names []string
	for _, e := range entries {
		if !strings.HasSuffix(e.Name(), ".cfg") {
			continue
		}
		if e.IsDir() {
			if _, err := os.Stat(filepath.Join(dir, e.Name()+".orig")); err != nil {
				continue
			}
		}
		names = append(names, e.Name())
	}
	sort.Strings(names)
	for _, n := range names {
		c.parseFile(filepath.Join(dir, n))
	}
	for _, s := range c.Sections {
		if s.Kind == "backend" || s.Kind == "listen" {
			c.Backends = append(c.Backends, newBackend(c, s))
		}
	}
	return c, c.Errors
}

func (c *Config) parseFile(path string) {
	data, err := ReadFile(path)
	if err != nil {
		c.Errors = append(c.Errors, err.Error())
		return
	}
	c.Files = append(c.Files, path)
	var cur *Section
	for n, raw := range strings.Split(string(data), "\n") {
		tok := Tokenize(raw)
		if len(tok) == 0 {
			continue
		}
		if sectionKinds[tok[0]] && raw[0] != ' ' && raw[0] != '\t' {
			cur = &Section{Kind: tok[0], File: path}
			if len(tok) > 1 {
				cur.Name = tok[1]
			}
			c.Sections = append(c.Sections, cur)
			continue
		}
		if cur == nil {
			c.Errors = append(c.Errors, fmt.Sprintf("%s:%d: directive outside a section: %s", path, n+1, raw))
			continue
		}
		cur.Lines = append(cur.Lines, Line{Raw: strings.TrimSpace(raw), Tok: tok, LineNo: n + 1})
	}
}

func newBackend(c *Config, s *Section) *Backend {
	b := &Backend{Section: s}
	for _, l := range s.Lines {
		switch l.Tok[0] {
		case "mode":
			if len(l.Tok) > 1 {
				b.Mode = l.Tok[1]
			}
		case "cookie":
			b.CookieLine = l.Tok[1:]
		case "server":
			sv, err := parseServer(l.Tok)
			if err != nil {
				c.Errors = append(c.Errors, fmt.Sprintf("%s:%d: %v", s.File, l.LineNo, err))
				continue
			}
			b.Servers = append(b.Servers, sv)
		case "server-template":
			// server-template <prefix> <n> <fqdn>[:<port>] ...: n slots named <prefix>1..<prefix>n, filled by the resolver
			if len(l.Tok) < 4 {
				c.Errors = append(c.Errors, fmt.Sprintf("%s:%d: short server-template line", s.File, l.LineNo))
				continue
			}
			n, err := strconv.Atoi(l.Tok[2])
			if err != nil {
				c.Errors = append(c.Errors, fmt.Sprintf("%s:%d: bad server-template size %q", s.File, l.LineNo, l.Tok[2]))
				continue
			}
			for i := 1; i <= n; i++ {
				tok := append([]string{"server", l.Tok[1] + strconv.Itoa(i), l.Tok[3]}, l.Tok[4:]...)
				sv, err := parseServer(tok)
				if err != nil {
					c.Errors = append(c.Errors, fmt.Sprintf("%s:%d: %v", s.File, l.LineNo, err))
					break
				}
				b.Servers = append(b.Servers, sv)
			}
		}
	}
	return b
}

var serverFlagOpts = map[string]bool{
	"disabled": true, "check": true, "ssl": true, "backup": true, "send-proxy": true, "send-proxy-v2": true,
	"send-proxy-v2-ssl": true, "send-proxy-v2-ssl-cn": true, "agent-check": true, "no-check": true, "check-ssl": true,
	"no-sslv3": true, "no-tlsv10": true, "no-tlsv11": true, "no-tlsv12": true, "no-tls-tickets": true, "force-tlsv12": true,
	"force-tlsv13": true, "check-send-proxy": true, "tfo": true, "allow-0rtt": true,
}

func parseServer(tok []string) (*Server, error) {
	if len(tok) < 3 {
		return nil, fmt.Errorf("short server line")
	}
	sv := &Server{Name: tok[1], Target: tok[2], Weight: 1}
	if i := strings.LastIndex(tok[2], ":"); i >= 0 && !strings.HasPrefix(tok[2], "unix@") {
		sv.Addr = tok[2][:i]
		p, err := strconv.Atoi(tok[2][i+1:])
		if err != nil {
			return nil, fmt.Errorf("bad port in %q", tok[2])
		}
		sv.Port = p
	} else {
		sv.Addr = tok[2]
	}
	for i := 3; i < len(tok); i++ {
		t := tok[i]
		switch t {
		case "disabled":
			sv.Disabled = true
		case "weight":
			if i+1 < len(tok) {
				w, err := strconv.Atoi(tok[i+1])
				if err != nil {
					return nil, fmt.Errorf("bad weight %q", tok[i+1])
				}
				sv.Weight = w
				i++
			}
		case "cookie":
			if i+1 < len(tok) {
				sv.Cookie = tok[i+1]
				i++
			}
		case "id":
			if i+1 < len(tok) {
				sv.ID = tok[i+1]
				i++
			}
		default:
			sv.Rest = append(sv.Rest, t)
		}
	}
	return sv, nil
}

// SectionsNamed returns the sections of the given kinds with that name.
func (c *Config) SectionsNamed(name string, kinds ...string) []*Section {
	var out []*Section
	for _, s := range c.Sections {
		if s.Name != name {
			continue
		}
		for _, k := range kinds {
			if s.Kind == k {
				out = append(out, s)
			}
		}
	}
	return out
}

// Backend returns the first backend (or listen) section with that name.
func (c *Config) Backend(name string) *Backend {
	for _, b := range c.Backends {
		if b.Name == name {
			return b
		}
	}
	return nil
}

// Frontend returns the first frontend section with that name.
func (c *Config) Frontend(name string) *Section {
	for _, s := range c.Sections {
		if s.Kind == "frontend" && s.Name == name {
			return s
		}
	}
	return nil
}

// MapEntry is one line of a map or list file.
type MapEntry struct {
	Key   string
	Value string
}

// MapFile ...
type MapFile struct {
	Path    string
	Entries []MapEntry
	Err     error
}

// Map loads (and caches) a map/list file: `key [value]` per line, # comments.
func (c *Config) Map(path string) *MapFile {
	if m, ok := c.maps[path]; ok {
		return m
	}
	m := &MapFile{Path: path}
	data, err := ReadFile(path)
	if err != nil {
		m.Err = err
	} else {
		for _, line := range strings.Split(string(data), "\n") {
			t := strings.TrimSpace(line)
			if t == "" || strings.HasPrefix(t, "#") {
				continue
			}
			e := MapEntry{Key: t}
			if i := strings.IndexAny(t, " \t"); i >= 0 {
				e.Key = t[:i]
				e.Value = strings.TrimSpace(t[i+1:])
			}
			m.Entries = append(m.Entries, e)
		}
	}
	c.maps[path] = m
	return m
}

// CrtListEntry is one line of a crt-list.
type CrtListEntry struct {
	File    string
	Options []string
	Filters []string
}

// CrtList parses a crt-list file.
func (c *Config) CrtList(path string) ([]CrtListEntry, error) {
	data, err := ReadFile(path)
	if err != nil {
		return nil, err
	}
	var out []CrtListEntry
	for _, line := range strings.Split(string(data), "\n") {
		t := strings.TrimSpace(line)
		if t == "" || strings.HasPrefix(t, "#") {
			continue
		}
		e := CrtListEntry{}
		if i := strings.Index(t, "["); i >= 0 {
			j := strings.Index(t, "]")
			if j < i {
				return nil, fmt.Errorf("bad crt-list line %q", t)
			}
			e.Options = strings.Fields(t[i+1 : j])
			t = t[:i] + " " + t[j+1:]
		}
		f := strings.Fields(t)
		if len(f) == 0 {
			continue
		}
		e.File = f[0]
		e.Filters = f[1:]
		out = append(out, e)
	}
	return out, nil
}

// BindCrtLists returns every crt-list referenced by a bind line, by section name.
func (c *Config) BindCrtLists() map[string][]string {
	out := map[string][]string{}
	for _, s := range c.Sections {
		for _, l := range s.Lines {
			if l.Tok[0] != "bind" {
				continue
			}
			for i, t := range l.Tok {
				if t == "crt-list" && i+1 < len(l.Tok) {
					out[s.Name] = append(out[s.Name], l.Tok[i+1])
				}
			}
		}
	}
	return out
}

// CertFiles lists the certificate files named by crt-lists of bind lines and by
// `crt` on bind lines.
func (c *Config) CertFiles() []string {
	seen := map[string]bool{}
	var out []string
	add := func(f string) {
		if !seen[f] {
			seen[f] = true
			out = append(out, f)
		}
	}
	for _, lists := range c.BindCrtLists() {
		for _, l := range lists {
			entries, err := c.CrtList(l)
			if err != nil {
				continue
			}
			for _, e := range entries {
				add(e.File)
			}
		}
	}
	for _, s := range c.Sections {
		for _, l := range s.Lines {
			if l.Tok[0] != "bind" {
				continue
			}
			for i, t := range l.Tok {
				if t == "crt" && i+1 < len(l.Tok) {
					add(l.Tok[i+1])
				}
			}
		}
	}
	sort.Strings(out)
	return out
}
