// Package ctlsim wires the real stages of the controller (watchers, cache facade,
// converters, haproxy instance in external mode) over an in-memory API client and
// a simulated HAProxy, the way Services.setup / IngressReconciler.Reconcile do.
package ctlsim

import (
	"context"

	"fmt"
	"github.com/go-logr/logr"
	"github.com/go-logr/logr/funcr"
	"os"
	"path/filepath"
	"strings"
	"sync"
	"time"

	"sigs.k8s.io/controller-runtime/pkg/client"
	gatewayv1 "sigs.k8s.io/gateway-api/apis/v1"
	gatewayv1beta1 "sigs.k8s.io/gateway-api/apis/v1beta1"

	"github.com/jcmoraisjr/haproxy-ingress/pkg/controller/config"
	"github.com/jcmoraisjr/haproxy-ingress/pkg/controller/reconciler"
	"github.com/jcmoraisjr/haproxy-ingress/pkg/controller/services"
	"github.com/jcmoraisjr/haproxy-ingress/pkg/converters"
	"github.com/jcmoraisjr/haproxy-ingress/pkg/converters/tracker"
	convtypes "github.com/jcmoraisjr/haproxy-ingress/pkg/converters/types"
	"github.com/jcmoraisjr/haproxy-ingress/pkg/haproxy"
	types_helper "github.com/jcmoraisjr/haproxy-ingress/pkg/types/helper_test"
	"github.com/jcmoraisjr/haproxy-ingress/pkg/utils"

	"verifharness/simhap"
	"verifharness/world"
)

// Params are the controller options a case may vary.
type Params struct {
	Shards            int      `json:"shards,omitempty"`
	SortBy            string   `json:"sortBy,omitempty"`
	DefaultBackend    string   `json:"defaultBackend,omitempty"`
	DefaultCrt        string   `json:"defaultCrt,omitempty"`
	WatchWithoutClass bool     `json:"watchWithoutClass,omitempty"`
	ClassPrecedence   bool     `json:"classPrecedence,omitempty"`
	AllowCrossNS      bool     `json:"allowCrossNS,omitempty"`
	DisableKeywords   []string `json:"disableKeywords,omitempty"`
	Gateway           bool     `json:"gateway,omitempty"`
	// GatewayB1: the cluster serves the Gateway API as v1beta1 only (Gateway, GatewayClass and HTTPRoute objects are
	// delivered and read as gateway.networking.k8s.io/v1beta1; the controller runs with HasGatewayB1 instead of HasGatewayV1)
	GatewayB1 bool `json:"gateway_b1,omitempty"`
	// EPSlices: --enable-endpointslices-api; the Endpoints objects of the world are published as EndpointSlice objects
	// only (world.EndpointSlices), the way a cluster's EndpointSlice controller does
	EPSlices bool `json:"ep_slices,omitempty"`
	Acme              bool     `json:"acme,omitempty"`
	AcmeTrackTLSAnn   bool     `json:"acmeTrackTLSAnn,omitempty"`
	NotLeader         bool     `json:"notLeader,omitempty"`
	// ReloadQueue: --reload-interval is configured, reloads are requested through the reload queue and run by
	// Services.reloadHAProxy (the harness drains the queue after every reconciliation, unless HoldReloads)
	ReloadQueue bool `json:"reloadQueue,omitempty"`
	// ExtraAnnPrefixes: --annotations-prefix lists two more prefixes after the main one
	ExtraAnnPrefixes bool `json:"extraAnnPrefixes,omitempty"`
}

// ExtraAnnPrefixes are the secondary annotation prefixes, in precedence order.
var ExtraAnnPrefixes = []string{"ingress.kubernetes.io", "haproxy.org"}

// RecLogger records log lines.
type RecLogger struct {
	mu    sync.Mutex
	Lines []string
}

func (l *RecLogger) add(level, msg string, args ...interface{}) {
	l.mu.Lock()
	defer l.mu.Unlock()
	l.Lines = append(l.Lines, level+" "+fmt.Sprintf(msg, args...))
}

// InfoV ...
func (l *RecLogger) InfoV(v int, msg string, args ...interface{}) { l.add("INFO-V", msg, args...) }

// Info ...
func (l *RecLogger) Info(msg string, args ...interface{}) { l.add("INFO", msg, args...) }

// Warn ...
func (l *RecLogger) Warn(msg string, args ...interface{}) { l.add("WARN", msg, args...) }

// Error ...
func (l *RecLogger) Error(msg string, args ...interface{}) { l.add("ERROR", msg, args...) }

// Fatal ...
func (l *RecLogger) Fatal(msg string, args ...interface{}) { l.add("FATAL", msg, args...) }

// Take returns and clears the recorded lines.
func (l *RecLogger) Take() []string {
	l.mu.Lock()
	defer l.mu.Unlock()
	out := l.Lines
	l.Lines = nil
	return out
}

// AcmeQueue records Add/Remove calls.
type AcmeQueue struct {
	mu  sync.Mutex
	Log []string
}

// Add ...
func (q *AcmeQueue) Add(item interface{}) {
	q.mu.Lock()
	defer q.mu.Unlock()
	q.Log = append(q.Log, fmt.Sprintf("add %v", item))
}

// AddAfter ...
func (q *AcmeQueue) AddAfter(item interface{}, d time.Duration) { q.Add(item) }

// Remove ...
func (q *AcmeQueue) Remove(item interface{}) {
	q.mu.Lock()
	defer q.mu.Unlock()
	q.Log = append(q.Log, fmt.Sprintf("remove %v", item))
}

// Start ...
func (q *AcmeQueue) Start(context.Context) error { return nil }

// Take ...
func (q *AcmeQueue) Take() []string {
	q.mu.Lock()
	defer q.mu.Unlock()
	out := q.Log
	q.Log = nil
	return out
}

// AcmeSigner stands for the acme signer where the real one is not under test: it has an account and records how the
// instance configured it.
type AcmeSigner struct {
	mu       sync.Mutex
	expiring time.Duration
	configs  int
}

func (a *AcmeSigner) AcmeAccount(endpoint, emails string, termsAgreed bool) {}
func (a *AcmeSigner) AcmeConfig(expiring time.Duration) {
	a.mu.Lock()
	a.expiring = expiring
	a.configs++
	a.mu.Unlock()
}
func (a *AcmeSigner) HasAccount() bool { return true }

// Expiring returns the renewal window the signer was last configured with, and how many times it was configured.
func (a *AcmeSigner) Expiring() (time.Duration, int) {
	a.mu.Lock()
	defer a.mu.Unlock()
	return a.expiring, a.configs
}
func (a *AcmeSigner) Notify(item interface{}) error { return nil }

type leader struct{ is bool }

func (l *leader) IsLeader() bool             { return l.is }
func (l *leader) LeaderName() string         { return "other" }
func (l *leader) Run(stopCh <-chan struct{}) {}

// StepInfo describes one reconciliation.
type StepInfo struct {
	FullReq  bool     // rparam.fullsync
	Err      error    // HAProxyUpdate result
	Reloads  int      // reloads performed by this step
	Cmds     int      // runtime commands sent by this step
	Objects  []string // changed.Objects
	Logs     []string
	Acme     []string
	WasFull  bool // a full sync was performed (log based)
	Reloaded bool
	Requeue  bool // the reconciler asked for a retry (RequeueAfter)
}

// Sim is one controller process plus its HAProxy.
type Sim struct {
	svc      *services.Services
	ctx      context.Context
	P        Params
	Signer   *AcmeSigner // acme only
	Dir      string
	Cfg      *config.Config
	Client   *MemClient
	World    *world.World
	Cache    services.VerifCache
	Watchers *reconciler.VerifWatchers
	Rec      *reconciler.VerifReconciler // the real IngressReconciler + Services (nil with Acme: needs a leader)
	Instance haproxy.Instance
	Tracker  convtypes.Tracker
	Hap      *simhap.Sim
	Log      *RecLogger
	ConvOpt  *convtypes.ConverterOptions
	DynCfg   *convtypes.DynamicConfig
	Acme     *AcmeQueue
	Leader   *leader
	pending  []bool
	Steps    int
	closed   bool
	// reload queue mode
	ReloadQ     *ReloadQueue
	HoldReloads bool // a requested reload stays in the queue (the worker is rate limited or waiting for the lock)
}

// ReloadQueue stands for the work queue of reloads: its only item (nil) is pending or not.
type ReloadQueue struct {
	mu      sync.Mutex
	pending bool
	Runs    int
}

// Add ...
func (q *ReloadQueue) Add(item interface{}) { q.mu.Lock(); q.pending = true; q.mu.Unlock() }

// AddAfter ...
func (q *ReloadQueue) AddAfter(item interface{}, d time.Duration) { q.Add(item) }

// Remove ...
func (q *ReloadQueue) Remove(item interface{}) { q.mu.Lock(); q.pending = false; q.mu.Unlock() }

// Start ...
func (q *ReloadQueue) Start(context.Context) error { return nil }

// Pending ...
func (q *ReloadQueue) Pending() bool { q.mu.Lock(); defer q.mu.Unlock(); return q.pending }

func (q *ReloadQueue) take() bool {
	q.mu.Lock()
	defer q.mu.Unlock()
	p := q.pending
	q.pending = false
	return p
}

// RunReloads runs the requests waiting in the reload queue, including the ones a failed reload adds back (a few
// times at most), and returns how many times the queue's sync func was called.
func (s *Sim) RunReloads() int {
	n := 0
	for s.ReloadQ != nil && n < 4 && s.ReloadQ.take() {
		n++
		s.ReloadQ.Runs++
		_ = s.svc.VerifReloadHAProxy(s.ctx)
	}
	return n
}

// Trace prints every reconciliation (development aid).
var Trace = os.Getenv("VERIF_TRACE") != ""

// RepoRoot is where the templates are read from.
var RepoRoot = func() string {
	if r := os.Getenv("VERIF_REPO"); r != "" {
		return r
	}
	return "/repo"
}()

// CfgDir is the directory HAProxy loads (-f).
func (s *Sim) CfgDir() string { return s.Dir + "/etc/haproxy" }

// MapsDir ...
func (s *Sim) MapsDir() string { return s.Dir + "/etc/haproxy/maps" }

// New creates a controller over an empty cluster. Call Bootstrap to load the
// initial objects (informer initial list) and run the first reconciliation.
func New(p Params) (*Sim, error) {
	dir, err := os.MkdirTemp("", "vs")
	if err != nil {
		return nil, err
	}
	s := &Sim{P: p, Dir: dir, World: world.New(), Log: &RecLogger{}, Acme: &AcmeQueue{}, Leader: &leader{is: !p.NotLeader}}
	for _, d := range []string{"/etc/haproxy/maps", "/etc/haproxy/lua", "/etc/haproxy/errorfiles", "/var/lib/haproxy/crt", "/var/lib/haproxy/cacerts", "/var/lib/haproxy/crl", "/var/lib/haproxy/dhparam", "/var/run/haproxy", "/run"} {
		if err := os.MkdirAll(dir+d, 0755); err != nil {
			return nil, err
		}
	}
	s.Hap, err = simhap.New(s.CfgDir(), dir+"/run")
	if err != nil {
		return nil, err
	}
	sortBy := p.SortBy
	if sortBy == "" {
		sortBy = "endpoint"
	}
	annPrefix := []string{strings.TrimSuffix(world.AnnPrefix, "/")}
	if p.ExtraAnnPrefixes {
		annPrefix = append(annPrefix, ExtraAnnPrefixes...)
	}
	cfg := &config.Config{
		AnnPrefix:                annPrefix,
		BackendShards:            p.Shards,
		ConfigMapName:            world.GlobalCM,
		TCPConfigMapName:         world.TCPCM,
		ControllerName:           world.ControllerName,
		IngressClass:             world.OurClass,
		IngressClassPrecedence:   p.ClassPrecedence,
		WatchIngressWithoutClass: p.WatchWithoutClass,
		AllowCrossNamespace:      p.AllowCrossNS,
		DefaultDirCerts:          dir + "/var/lib/haproxy/crt",
		DefaultDirCACerts:        dir + "/var/lib/haproxy/cacerts",
		DefaultDirCrl:            dir + "/var/lib/haproxy/crl",
		DefaultDirDHParam:        dir + "/var/lib/haproxy/dhparam",
		DefaultDirMaps:           dir + "/etc/haproxy/maps",
		DefaultDirVarRun:         dir + "/var/run/haproxy",
		DefaultService:           p.DefaultBackend,
		DefaultSSLCertificate:    p.DefaultCrt,
		DisableKeywords:          p.DisableKeywords,
		DisableExternalName:      true,
		ElectionNamespace:        world.CtlNS,
		LocalFSPrefix:            dir,
		MasterSocket:             s.Hap.MasterSocket(),
		SortEndpointsBy:          sortBy,
		EnableEndpointSliceAPI:   p.EPSlices,
		HasGatewayV1:             p.Gateway && !p.GatewayB1,
		HasGatewayB1:             p.Gateway && p.GatewayB1,
		HasTCPRouteA2:            p.Gateway,
		AcmeServer:               p.Acme,
		AcmeTrackTLSAnn:          p.AcmeTrackTLSAnn,
		ReloadRetry:              time.Second,
	}
	s.Cfg = cfg
	s.Client = NewMemClient()
	// controller-runtime style loggers (services, cache, watchers) are recorded too
	ctx := logr.NewContext(context.Background(), funcr.New(func(prefix, args string) {
		s.Log.add("LOGR", "%s %s", prefix, args)
	}, funcr.Options{}))
	s.Tracker = tracker.NewTracker()
	s.DynCfg = &convtypes.DynamicConfig{StaticCrossNamespaceSecrets: cfg.AllowCrossNamespace}
	cache, fakeCrt, fakeCA, err := services.VerifNewCache(ctx, s.Client, cfg, s.Tracker, s.DynCfg)
	if err != nil {
		return nil, err
	}
	s.Cache = cache
	metrics := types_helper.NewMetricsMock()
	iopt := haproxy.InstanceOptions{
		RootFSPrefix:    RepoRoot + "/rootfs",
		LocalFSPrefix:   dir,
		HAProxyCfgDir:   dir + "/etc/haproxy",
		HAProxyMapsDir:  cfg.DefaultDirMaps,
		IsExternal:      true,
		MasterSocket:    s.Hap.MasterSocket(),
		AdminSocket:     s.Hap.AdminSocket(),
		AcmeSocket:      dir + "/var/run/haproxy/acme.sock",
		BackendShards:   p.Shards,
		Metrics:         metrics,
		SortEndpointsBy: sortBy,
		StopCh:          ctx.Done(),
	}
	if p.ReloadQueue && !p.Acme {
		s.ReloadQ = &ReloadQueue{}
		iopt.ReloadQueue = s.ReloadQ
	}
	if p.Acme {
		s.Signer = &AcmeSigner{}
		iopt.AcmeSigner = s.Signer
		iopt.AcmeQueue = s.Acme
		iopt.LeaderElector = s.Leader
	}
	s.ConvOpt = &convtypes.ConverterOptions{
		Logger:           s.Log,
		Cache:            cache,
		Tracker:          s.Tracker,
		DynamicConfig:    s.DynCfg,
		LocalFSPrefix:    dir,
		IsExternal:       true,
		MasterSocket:     iopt.MasterSocket,
		AdminSocket:      iopt.AdminSocket,
		AcmeSocket:       iopt.AcmeSocket,
		AnnotationPrefix: cfg.AnnPrefix,
		DefaultBackend:   cfg.DefaultService,
		DefaultCrtSecret: cfg.DefaultSSLCertificate,
		FakeCrtFile:      fakeCrt,
		FakeCAFile:       fakeCA,
		DisableKeywords:  cfg.DisableKeywords,
		AcmeTrackTLSAnn:  cfg.AcmeTrackTLSAnn,
		HasGatewayV1:     cfg.HasGatewayV1,
		HasGatewayB1:     cfg.HasGatewayB1,
		EnableEPSlices:   cfg.EnableEndpointSliceAPI,
		HasTCPRouteA2:    cfg.HasTCPRouteA2,
	}
	s.Instance = haproxy.CreateInstance(s.Log, iopt)
	if err := s.Instance.ParseTemplates(); err != nil {
		return nil, err
	}
	if p.Acme {
		// acme needs this controller to be the leader, which the hooked Services never is:
		// Reconcile and ReconcileIngress are mirrored by ReconcileOne in this mode
		s.Watchers = reconciler.VerifNewWatchers(ctx, cfg, cache)
	} else {
		svc := services.VerifNewServices(ctx, s.Client, cfg, cache, s.ConvOpt, s.Instance)
		s.svc, s.ctx = svc, ctx
		if s.ReloadQ != nil {
			svc.VerifSetReloadQueue(s.ReloadQ)
		}
		s.Rec = reconciler.VerifNewReconciler(ctx, cfg, svc)
		s.Watchers = s.Rec.VerifWatchers
	}
	return s, nil
}

// QueueReconciler returns the reconciler of this controller wired to the work queue and the rate limiter that
// SetupWithManager configures for the given --rate-limit-update and --wait-before-update. Events dispatched
// through its Dispatch and its LeaderChanged go through the controller's own enqueue sites.
func (s *Sim) QueueReconciler(rateLimitUpdate float64, waitBeforeUpdate time.Duration,
	observe func(fullsync bool, before, after time.Time, delay time.Duration)) *reconciler.VerifQueueReconciler {
	cfg := *s.Cfg
	cfg.RateLimitUpdate = rateLimitUpdate
	cfg.WaitBeforeUpdate = waitBeforeUpdate
	return reconciler.VerifNewQueueReconciler(s.ctx, &cfg, s.svc, observe)
}

// Close releases sockets and removes the directory.
func (s *Sim) Close() {
	if s.closed {
		return
	}
	s.closed = true
	s.Hap.Close()
	os.RemoveAll(s.Dir)
}

// Bootstrap loads the initial objects as the informers' initial list does
// (API state first, then one create event per object) and reconciles.
func (s *Sim) Bootstrap(objs []*world.Obj) ([]StepInfo, error) {
	ops := make([]world.Op, len(objs))
	for i, o := range objs {
		ops[i] = world.Op{Op: "create", Obj: o}
	}
	if err := s.Apply(ops); err != nil {
		return nil, err
	}
	if len(s.pending) == 0 {
		// an empty cluster still runs a first reconciliation when the
		// controller starts (leader acquired / first event); model it.
		s.pending = append(s.pending, false)
	}
	return s.Reconcile(), nil
}

type event struct {
	ev       string
	old, cur client.Object
}

// ApplyAPI applies ops to the API state only and returns the events that the
// informers will deliver, in order.
func (s *Sim) applyAPI(ops []world.Op) ([]event, error) {
	var evs []event
	for _, op := range ops {
		old, cur, err := s.World.Apply(op)
		if err != nil {
			return nil, err
		}
		if s.P.EPSlices && op.Obj != nil && op.Obj.Kind == world.KEndpoints {
			evs = append(evs, s.applySlices(old, cur)...)
			continue
		}
		switch op.Op {
		case "create":
			k := s.served(cur.ToK8s())
			s.Client.Put(k)
			evs = append(evs, event{"create", nil, k})
		case "update":
			ko, kn := s.served(old.ToK8s()), s.served(cur.ToK8s())
			s.Client.Put(kn)
			evs = append(evs, event{"update", ko, kn})
		case "delete":
			ko := s.served(old.ToK8s())
			s.Client.Remove(ko)
			evs = append(evs, event{"delete", nil, ko})
		}
	}
	return evs, nil
}

// applySlices publishes the change of an Endpoints object as changes of its EndpointSlice objects.
func (s *Sim) applySlices(old, cur *world.Obj) []event {
	var evs []event
	olds := map[string]client.Object{}
	for _, sl := range world.EndpointSlices(old) {
		olds[sl.Name] = sl
	}
	for _, sl := range world.EndpointSlices(cur) {
		if o, found := olds[sl.Name]; found {
			delete(olds, sl.Name)
			s.Client.Put(sl)
			evs = append(evs, event{"update", o, sl})
		} else {
			s.Client.Put(sl)
			evs = append(evs, event{"create", nil, sl})
		}
	}
	for _, sl := range world.EndpointSlices(old) {
		if o, found := olds[sl.Name]; found {
			s.Client.Remove(o)
			evs = append(evs, event{"delete", nil, o})
		}
	}
	return evs
}

// served returns the object in the API version this cluster serves (see Params.GatewayB1).
func (s *Sim) served(o client.Object) client.Object {
	if !s.P.GatewayB1 {
		return o
	}
	switch v := o.(type) {
	case *gatewayv1.Gateway:
		return (*gatewayv1beta1.Gateway)(v)
	case *gatewayv1.GatewayClass:
		return (*gatewayv1beta1.GatewayClass)(v)
	case *gatewayv1.HTTPRoute:
		return (*gatewayv1beta1.HTTPRoute)(v)
	}
	return o
}

func (s *Sim) dispatch(evs []event) {
	for _, e := range evs {
		s.Watchers.Dispatch(e.ev, e.old, e.cur)
	}
	s.enqueue(s.Watchers.TakePending())
}

func (s *Sim) enqueue(items []bool) {
	for _, it := range items {
		dup := false
		for _, p := range s.pending {
			if p == it {
				dup = true
			}
		}
		if !dup {
			s.pending = append(s.pending, it)
		}
	}
}

// Apply applies ops to the API and delivers all their events (no reconcile).
func (s *Sim) Apply(ops []world.Op) error {
	evs, err := s.applyAPI(ops)
	if err != nil {
		return err
	}
	s.dispatch(evs)
	return nil
}

// ApplySplit applies all ops to the API state, delivers only the first n events,
// reconciles, then delivers the rest and reconciles again: the informer cache is
// ahead of the handlers.
func (s *Sim) ApplySplit(ops []world.Op, n int) ([]StepInfo, error) {
	evs, err := s.applyAPI(ops)
	if err != nil {
		return nil, err
	}
	if n > len(evs) {
		n = len(evs)
	}
	s.dispatch(evs[:n])
	steps := s.Reconcile()
	s.dispatch(evs[n:])
	steps = append(steps, s.Reconcile()...)
	return steps, nil
}

// Pending reports the queued reconcile requests.
func (s *Sim) Pending() []bool { return append([]bool{}, s.pending...) }

// EnqueueRetry adds the request the reconciler re-queues after an error.
func (s *Sim) EnqueueRetry(full bool) { s.enqueue([]bool{full}) }

// Reconcile processes every queued request, as the controller's worker does.
func (s *Sim) Reconcile() []StepInfo {
	var out []StepInfo
	for len(s.pending) > 0 {
		req := s.pending[0]
		s.pending = s.pending[1:]
		out = append(out, s.ReconcileOne(req))
	}
	return out
}

// ReconcileOne mirrors IngressReconciler.Reconcile + Services.ReconcileIngress.
func (s *Sim) ReconcileOne(fullsync bool) StepInfo {
	s.Steps++
	r0, _, c0, _ := s.Hap.Counters()
	if s.Rec != nil {
		// the real IngressReconciler.Reconcile -> Services.ReconcileIngress
		requeue, err := s.Rec.Reconcile(fullsync)
		if !s.HoldReloads {
			s.RunReloads()
		}
		r1, _, c1, _ := s.Hap.Counters()
		info := StepInfo{FullReq: fullsync, Err: err, Reloads: r1 - r0, Cmds: c1 - c0, Logs: s.Log.Take(), Requeue: requeue > 0}
		if err == nil && requeue > 0 {
			info.Err = fmt.Errorf("the update failed and the reconciler asked to be requeued after %s", requeue)
		}
		info.Reloaded = info.Reloads > 0
		if Trace {
			fmt.Printf("--- step full=%v err=%v reloads=%d cmds=%d\n", fullsync, info.Err, info.Reloads, info.Cmds)
			for _, l := range info.Logs {
				fmt.Println("      ", l)
			}
		}
		return info
	}
	changed := s.Watchers.GetChangedObjects()
	changed.NeedFullSync = fullsync
	timer := utils.NewTimer(nil)
	converters.NewConverter(timer, s.Instance.Config(), changed, s.ConvOpt).Sync()
	if s.Leader.is {
		s.Instance.AcmeUpdate()
	}
	err := s.Instance.HAProxyUpdate(timer)
	r1, _, c1, _ := s.Hap.Counters()
	info := StepInfo{FullReq: fullsync, Err: err, Reloads: r1 - r0, Cmds: c1 - c0, Objects: changed.Objects, Logs: s.Log.Take(), Acme: s.Acme.Take()}
	info.Reloaded = info.Reloads > 0
	return info
}

// Files returns the content of every regular file under the cfg dir (recursive),
// keyed by path relative to Dir.
func (s *Sim) Files() map[string]string {
	out := map[string]string{}
	_ = filepath.Walk(s.CfgDir(), func(path string, info os.FileInfo, err error) error {
		if err != nil || info.IsDir() {
			return nil
		}
		b, err := os.ReadFile(path)
		if err == nil {
			rel, _ := filepath.Rel(s.Dir, path)
			out[rel] = string(b)
		}
		return nil
	})
	return out
}
