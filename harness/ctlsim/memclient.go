package ctlsim

import (
	"context"
	"reflect"
	"sort"
	"strings"
	"sync"

	api "k8s.io/api/core/v1"
	discoveryv1 "k8s.io/api/discovery/v1"
	networking "k8s.io/api/networking/v1"
	apierrors "k8s.io/apimachinery/pkg/api/errors"
	"k8s.io/apimachinery/pkg/labels"
	"k8s.io/apimachinery/pkg/runtime"
	"k8s.io/apimachinery/pkg/runtime/schema"
	"sigs.k8s.io/controller-runtime/pkg/client"
	gatewayv1 "sigs.k8s.io/gateway-api/apis/v1"
	gatewayv1alpha2 "sigs.k8s.io/gateway-api/apis/v1alpha2"
	gatewayv1beta1 "sigs.k8s.io/gateway-api/apis/v1beta1"
)

var scheme = func() *runtime.Scheme {
	s := runtime.NewScheme()
	_ = api.AddToScheme(s)
	_ = networking.AddToScheme(s)
	_ = discoveryv1.AddToScheme(s)
	_ = gatewayv1.AddToScheme(s)
	_ = gatewayv1beta1.AddToScheme(s)
	_ = gatewayv1alpha2.AddToScheme(s)
	return s
}()

// MemClient is an in-memory stand-in for the manager's cached client: Get and
// List return deep copies with the GVK set (as controller-runtime's cache reader
// does); List returns items in an order chosen by ListPerm (the informer index
// is a hash map, so any order is possible in production).
type MemClient struct {
	client.Client // nil: any method not implemented below panics
	mu            sync.Mutex
	objs          map[reflect.Type]map[string]client.Object
	// ListPerm, if set, returns the order in which n items (sorted by key) are returned.
	ListPerm func(kind string, n int) []int
	Gets     int
	Lists    int
	Writes   int
	GetLog   map[string]int // "Kind:ns/name" -> number of Get calls (also misses)
}

// NewMemClient ...
func NewMemClient() *MemClient {
	return &MemClient{objs: map[reflect.Type]map[string]client.Object{}, GetLog: map[string]int{}}
}

func typeOf(obj runtime.Object) reflect.Type { return reflect.TypeOf(obj).Elem() }

func setGVK(obj client.Object) {
	gvks, _, err := scheme.ObjectKinds(obj)
	if err == nil && len(gvks) > 0 {
		obj.GetObjectKind().SetGroupVersionKind(gvks[0])
	}
}

func nsname(ns, name string) string {
	if ns == "" {
		return name
	}
	return ns + "/" + name
}

// Put stores (creates or replaces) an object.
func (c *MemClient) Put(obj client.Object) {
	c.mu.Lock()
	defer c.mu.Unlock()
	t := typeOf(obj)
	if c.objs[t] == nil {
		c.objs[t] = map[string]client.Object{}
	}
	c.objs[t][nsname(obj.GetNamespace(), obj.GetName())] = obj.DeepCopyObject().(client.Object)
}

// Remove deletes an object if present.
func (c *MemClient) Remove(obj client.Object) {
	c.mu.Lock()
	defer c.mu.Unlock()
	delete(c.objs[typeOf(obj)], nsname(obj.GetNamespace(), obj.GetName()))
}

// Get ...
func (c *MemClient) Get(ctx context.Context, key client.ObjectKey, obj client.Object, opts ...client.GetOption) error {
	c.mu.Lock()
	defer c.mu.Unlock()
	c.Gets++
	t := typeOf(obj)
	c.GetLog[t.Name()+":"+nsname(key.Namespace, key.Name)]++
	o := c.objs[t][nsname(key.Namespace, key.Name)]
	if o == nil {
		return apierrors.NewNotFound(schema.GroupResource{Resource: strings.ToLower(t.Name())}, key.Name)
	}
	cp := o.DeepCopyObject().(client.Object)
	reflect.ValueOf(obj).Elem().Set(reflect.ValueOf(cp).Elem())
	setGVK(obj)
	return nil
}

// List ...
func (c *MemClient) List(ctx context.Context, list client.ObjectList, opts ...client.ListOption) error {
	c.mu.Lock()
	defer c.mu.Unlock()
	c.Lists++
	lo := client.ListOptions{}
	lo.ApplyOptions(opts)
	itemsField := reflect.ValueOf(list).Elem().FieldByName("Items")
	itemType := itemsField.Type().Elem()
	m := c.objs[itemType]
	keys := make([]string, 0, len(m))
	for k, o := range m {
		if lo.Namespace != "" && o.GetNamespace() != lo.Namespace {
			continue
		}
		if lo.LabelSelector != nil && !lo.LabelSelector.Matches(labels.Set(o.GetLabels())) {
			continue
		}
		keys = append(keys, k)
	}
	sort.Strings(keys)
	order := make([]int, len(keys))
	for i := range order {
		order[i] = i
	}
	if c.ListPerm != nil {
		order = c.ListPerm(itemType.Name(), len(keys))
	}
	out := reflect.MakeSlice(itemsField.Type(), 0, len(keys))
	for _, i := range order {
		cp := m[keys[i]].DeepCopyObject().(client.Object)
		setGVK(cp)
		out = reflect.Append(out, reflect.ValueOf(cp).Elem())
	}
	itemsField.Set(out)
	return nil
}

// Create ...
func (c *MemClient) Create(ctx context.Context, obj client.Object, opts ...client.CreateOption) error {
	c.mu.Lock()
	t := typeOf(obj)
	_, found := c.objs[t][nsname(obj.GetNamespace(), obj.GetName())]
	c.Writes++
	c.mu.Unlock()
	if found {
		return apierrors.NewAlreadyExists(schema.GroupResource{Resource: strings.ToLower(t.Name())}, obj.GetName())
	}
	c.Put(obj)
	return nil
}

// Update ...
func (c *MemClient) Update(ctx context.Context, obj client.Object, opts ...client.UpdateOption) error {
	c.mu.Lock()
	t := typeOf(obj)
	_, found := c.objs[t][nsname(obj.GetNamespace(), obj.GetName())]
	c.Writes++
	c.mu.Unlock()
	if !found {
		return apierrors.NewNotFound(schema.GroupResource{Resource: strings.ToLower(t.Name())}, obj.GetName())
	}
	c.Put(obj)
	return nil
}

// Delete ...
func (c *MemClient) Delete(ctx context.Context, obj client.Object, opts ...client.DeleteOption) error {
	c.Remove(obj)
	return nil
}

// Scheme ...
func (c *MemClient) Scheme() *runtime.Scheme { return scheme }
