package props

import (
	"fmt"
	"strings"
	"testing"

	"pgregory.net/rapid"

	"verifharness/ctlsim"
	"verifharness/hapcfg"
	"verifharness/world"
)

// C06 — same cluster state gives the same behaviour, whatever the processing order.

// C06Case is a conflict-rich world plus the seeds of the order permutations.
type C06Case struct {
	World WorldCase `json:"world"`
	Seeds []uint32  `json:"seeds"` // one per permuted variant (list order and event order)
}

func c06Profile() Profile {
	p := defaultProfile()
	p.MissingRefs = false
	p.GlobalCM = true
	p.AuthSecret = true
	p.GlobalKeys = []annChoice{{"external-has-lua", []string{"true"}}}
	p.MaxIng = 6
	p.CaseDupAnn = true
	p.Paths = append(append([]string{}, basePaths...), "/oauth2")
	p.Ann = []annChoice{
		// backend scoped, conflicting values on shared services
		{"balance-algorithm", []string{"roundrobin", "leastconn", "first"}},
		{"timeout-server", []string{"10s", "20s", "30s"}},
		{"maxconn-server", []string{"10", "20"}},
		{"ssl-redirect", []string{"true", "false"}},
		// host scoped
		{"app-root", []string{"/app", "/b"}},
		{"redirect-from", []string{"old.local", "older.local"}},
		// server-alias is generated only when the known finding below is not listed
		{"auth-tls-secret", []string{"ca1"}},
		{"ssl-ciphers", []string{"ECDHE-RSA-AES128-GCM-SHA256", "ECDHE-RSA-AES256-GCM-SHA384"}},
		{"oauth", []string{"oauth2_proxy"}},
		{"allowlist-source-range", []string{"10.0.0.0/8", "192.168.0.0/16"}},
		{"auth-type", []string{"basic"}},
		{"auth-secret", []string{"pw"}},
	}
	p.SvcAnn = []annChoice{{"balance-algorithm", []string{"roundrobin", "leastconn"}}, {"timeout-server", []string{"15s"}}}
	return p
}

// Known finding: two hosts that end up with the same server-alias (one ingress with
// two hosts, or two ingresses) put the same key twice in the host maps; which
// backend answers the alias depends on the order the paths were inserted, ie on
// processing order. The code has a TODO for it ("check if host.Alias.AliasName was
// already used"). Worlds with server-alias are excluded by construction.
const sigAliasShared = "C06:server-alias-shared-by-hosts"

func genC06(t *rapid.T) C06Case {
	p := c06Profile()
	if !isKnownSig(sigAliasShared) {
		p.Ann = append(p.Ann, annChoice{"server-alias", []string{"alias.local", "alias2.local"}})
	}
	// --annotations-prefix with three prefixes: keys declared with the 2nd and the 3rd one conflict
	p.PrefixDupAnn = chanceT(t, "extraprefixes", 40)
	g := newG(t, p)
	g.genWorld()
	for _, ns := range g.P.NS {
		g.add(&world.Obj{Kind: world.KSecret, NS: ns, Name: "ca1", SecretKind: "ca", Cert: 0})
	}
	// creation-time ties are the interesting case: squeeze the timestamps
	for _, o := range g.W.OfKind(world.KIngress) {
		o.Created = o.Created % 2
	}
	c := C06Case{World: WorldCase{Params: ctlsim.Params{Shards: rapid.SampledFrom([]int{0, 0, 3}).Draw(t, "shards"), ExtraAnnPrefixes: p.PrefixDupAnn}}}
	// --enable-endpointslices-api: the slices of a service are listed in any order
	c.World.Params.EPSlices = chanceT(t, "epslices", 20)
	// Gateway API objects next to the ingresses (HTTPRoutes with tied creation times), served as v1 or as v1beta1 only
	if chanceT(t, "gateway", 30) {
		g.genGatewayExtras()
		for _, o := range g.W.OfKind(world.KHTTPRoute) {
			o.Created = o.Created % 2
		}
		c.World.Params.Gateway = true
		c.World.Params.GatewayB1 = chanceT(t, "gatewayb1", 50)
	}
	for _, o := range g.W.List() {
		c.World.Objs = append(c.World.Objs, o.Clone())
	}
	for i := 0; i < 3; i++ {
		c.Seeds = append(c.Seeds, rapid.Uint32().Draw(t, "permseed"))
	}
	return c
}

// permOf is a deterministic permutation of n elements derived from a seed and a salt.
func permOf(n int, seed uint32, salt string) []int {
	x := uint64(seed)*2654435761 + 12345
	for _, ch := range salt {
		x = x*1099511628211 + uint64(ch)
	}
	p := make([]int, n)
	for i := range p {
		p[i] = i
	}
	for i := n - 1; i > 0; i-- {
		x = x*6364136223846793005 + 1442695040888963407
		j := int((x >> 33) % uint64(i+1))
		p[i], p[j] = p[j], p[i]
	}
	return p
}

func c06Run(c C06Case, variant int) (*hapcfg.NF, []string, error) {
	objs := c.World.Objs
	s, err := ctlsim.New(c.World.Params)
	if err != nil {
		return nil, nil, err
	}
	defer s.Close()
	if variant > 0 && variant <= len(c.Seeds) {
		seed := c.Seeds[variant-1]
		s.Client.ListPerm = func(kind string, n int) []int { return permOf(n, seed, kind) }
		perm := permOf(len(objs), seed, "events")
		shuffled := make([]*world.Obj, len(objs))
		for i, j := range perm {
			shuffled[i] = objs[j]
		}
		objs = shuffled
	}
	steps, err := s.Bootstrap(objs)
	if err != nil {
		return nil, nil, err
	}
	if e := stepErrors(steps); e != nil {
		return nil, nil, e
	}
	reqs, snis := requestsFor(c.World.Objs)
	reqs, _ = dropAmbiguous(c.World.Objs, reqs)
	nf, _ := simNF(s, reqs, snis)
	var logs []string
	for _, st := range steps {
		logs = append(logs, st.Logs...)
	}
	return nf, logs, nil
}

func execC06(c C06Case) *Failure {
	st := getStats("C06")
	base, logs, err := c06Run(c, 0)
	if err != nil {
		return failf("C06:update-error", "%v", err)
	}
	conflict := false
	for _, l := range logs {
		if strings.Contains(l, "conflict") || strings.Contains(l, "already") || strings.Contains(l, "skipping redeclared") {
			conflict = true
		}
	}
	labels := []string{}
	if conflict {
		labels = append(labels, "has-conflict")
	}
	ties := map[int]int{}
	for _, o := range c.World.Objs {
		if o.Kind == world.KIngress {
			ties[o.Created]++
		}
	}
	for _, n := range ties {
		if n > 1 {
			labels = append(labels, "creation-time-tie")
			break
		}
	}
	st.Case(c, conflict, dedup(labels)...)
	// variants: permuted list/event orders, then plain repetitions (map iteration re-randomised)
	nvar := len(c.Seeds) + 2
	for v := 1; v <= nvar; v++ {
		nf, _, err := c06Run(c, v)
		if err != nil {
			return failf("C06:update-error", "%v", err)
		}
		st.Count("runs", 1)
		if diff := base.Diff(nf); len(diff) > 0 {
			kind := "repeated-run"
			if v <= len(c.Seeds) {
				kind = "permuted-order"
			}
			first := strings.SplitN(diff[0], " ", 2)[0]
			if aliasShared(c.World.Objs) {
				return failf(sigAliasShared, "the same server-alias is configured on more than one host and the alias is answered by different backends depending on processing order:\n%s", diff[0])
			}
			msg := diff[0]
			if len(diff) > 1 {
				msg += "\n...\n" + diff[len(diff)-1]
			}
			return failf("C06:order-dependent:"+first, "the same cluster state produced behaviourally different configurations (%s, variant %d of %d; %d difference(s)); A = reference order, B = variant:\n%s", kind, v, nvar, len(diff), msg)
		}
	}
	_ = fmt.Sprint
	return nil
}

// aliasShared: some server-alias value ends up on two hosts.
func aliasShared(objs []*world.Obj) bool {
	hostsOf := map[string]map[string]bool{}
	for _, o := range objs {
		if o.Kind != world.KIngress || o.Ann["server-alias"] == "" {
			continue
		}
		a := o.Ann["server-alias"]
		if hostsOf[a] == nil {
			hostsOf[a] = map[string]bool{}
		}
		for _, r := range o.Rules {
			hostsOf[a][r.Host] = true
		}
	}
	for _, hs := range hostsOf {
		if len(hs) > 1 {
			return true
		}
	}
	return false
}

func init() { registerReplay("C06", execC06) }

func TestC06(t *testing.T) {
	runProperty(t, "C06", genC06, execC06)
}
