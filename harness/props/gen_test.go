package props

import (
	"fmt"
	"sort"
	"strings"

	"pgregory.net/rapid"

	"verifharness/ctlsim"
	"verifharness/hapcfg"
	"verifharness/world"
)

func sp(s string) *string { return &s }

// Profile selects which features a generated world/history may use.
type Profile struct {
	NS             []string // tenant namespaces
	Hosts          []string
	Paths          []string
	MaxIng         int
	MinIng         int
	Svcs           []string // service names per namespace (default s1..s3)
	DefBackPct     int      // share of ingresses with spec.defaultBackend (default 12) ...
	DefBackOnlyPct int      // ... and of those, the share that declares nothing else (default 30)
	CaseDupAnn     bool     // some annotation keys are declared twice, differing by case only
	SecretNames    []string // names of the tls secrets of every namespace (default t1..t3)
	UnlabeledPods  bool     // a third of the pods carry no blue/green group label
	PrefixDupAnn   bool     // some keys are declared with the 2nd and the 3rd annotation prefix (other values) instead of the main one
	SingleDefBack  bool     // at most one ingress with spec.defaultBackend (the default host then has one owner)
	SparseOK       bool     // focused worlds may be sparse
	Gateway        bool     // the world also holds a Gateway and HTTPRoutes (static during the history)
	IngDeletePct   int      // share of the ingress ops that delete (default 20)
	Sparse         bool     // one rule with one path per ingress: few incidental links between ingresses
	TLS            bool
	DefBackend     bool // spec.defaultBackend
	EmptyHost      bool // rules with host ""
	Classes        bool // class selection variants
	Ann            []annChoice
	SvcAnn         []annChoice
	GlobalCM       bool // create the global ConfigMap
	GlobalKeys     []annChoice
	GlobalAlways   map[string]string // keys present in every version of the global ConfigMap
	Pods           bool
	MissingRefs    bool // ingress may reference missing services/secrets
	MaxReady       int
	NotReady       bool
	AuthSecret     bool
	MultiTLS       bool        // tls blocks may list hosts without a rule
	Avoid          []avoidRule // input classes of known findings, excluded by construction
	NoTCPCM        bool        // do not create the ConfigMap based tcp-services (they never update dynamically)
	RotateTogether bool        // some batches renew several tls secrets with one and the same new certificate
	Bundles        []annBundle // coherent groups of annotations (a feature switched on as a whole)
	BundlePct      int
}

// annBundle switches a feature on: every key gets one of its values; Path, if
// set, is added as an extra path of the first rule (eg /oauth2); Root forces the
// rules to the root path (tcp services).
type annBundle struct {
	Name string
	Keys []annChoice
	Path string
	Root bool
}

// avoidRule describes an input class that a known (recorded, unrepaired) finding
// covers: ops for which Pred holds are not generated, and counted.
type avoidRule struct {
	Sig  string
	Pred func(w *world.World, op world.Op) bool
}

type annChoice struct {
	Key    string
	Values []string
}

var baseHosts = []string{"h1.local", "h2.local", "h3.local"}
var basePaths = []string{"/", "/app", "/app/", "/app/sub", "/app1", "/App", "/b"}

func defaultProfile() Profile {
	return Profile{
		NS:         []string{"a", "b"},
		Hosts:      baseHosts,
		Paths:      basePaths,
		MaxIng:     5,
		TLS:        true,
		DefBackend: true,
		EmptyHost:  true,
		MaxReady:   3,
		NotReady:   true,
		Ann: []annChoice{
			{"balance-algorithm", []string{"roundrobin", "leastconn"}},
			{"ssl-redirect", []string{"true", "false"}},
			{"timeout-server", []string{"10s", "20s"}},
			{"maxconn-server", []string{"10", "20"}},
			{"hsts", []string{"false", "true"}},
			{"allowlist-source-range", []string{"10.0.0.0/8", "192.168.0.0/16"}},
			{"app-root", []string{"/app", "/b"}},
			{"cors-enable", []string{"true"}},
			{"rewrite-target", []string{"/", "/new"}},
			{"limit-rps", []string{"10"}},
		},
		SvcAnn: []annChoice{
			{"balance-algorithm", []string{"roundrobin", "leastconn"}},
			{"timeout-server", []string{"10s", "30s"}},
			{"proxy-body-size", []string{"1m"}},
		},
	}
}

// svcTemplates: a few port layouts (numeric and named targetPorts).
var svcPortLayouts = [][]world.SvcPort{
	{{Name: "http", Port: 80, Target: "8080"}},
	{{Port: 8000}},
	{{Name: "web", Port: 80, Target: "web"}, {Name: "adm", Port: 9090, Target: "9090"}},
	{{Name: "http", Port: 80, Target: "8080"}, {Name: "alt", Port: 81, Target: "8081"}},
}

// G is a generator bound to a rapid.T, a profile and a world model.
type G struct {
	t        *rapid.T
	P        Profile
	W        *world.World
	n        int
	Excluded map[string]int
	theme    int // 0 = not drawn yet, -1 = none, k+1 = bundle k is this world's recurring feature
	themePct int // share of the ingresses that carry the theme
}

func newG(t *rapid.T, p Profile) *G {
	return &G{t: t, P: p, W: world.New(), Excluded: map[string]int{}}
}

func (g *G) label(s string) string { g.n++; return fmt.Sprintf("%s#%d", s, g.n) }

func (g *G) pick(name string, xs []string) string {
	return rapid.SampledFrom(xs).Draw(g.t, name)
}

func (g *G) intn(name string, lo, hi int) int { return rapid.IntRange(lo, hi).Draw(g.t, name) }

// chance is true with (about) pct percent probability. rapid's integer generators
// are biased towards small values, so the draw is assembled from fair bits.
func (g *G) chance(name string, pct int) bool { return chanceT(g.t, name, pct) }

func chanceT(t *rapid.T, name string, pct int) bool {
	v := 0
	for i := 0; i < 7; i++ {
		v <<= 1
		if rapid.Bool().Draw(t, name) {
			v |= 1
		}
	}
	return (127-v)*100/128 < pct
}

func (g *G) add(o *world.Obj) *world.Obj {
	if _, _, err := g.W.Apply(world.Op{Op: "create", Obj: o}); err != nil {
		panic(err)
	}
	return g.W.Objs[o.Key()]
}

func svcNames() []string { return []string{"s1", "s2", "s3"} }

// svcs are the service names of the profile.
func (g *G) svcs() []string {
	if len(g.P.Svcs) > 0 {
		return g.P.Svcs
	}
	return svcNames()
}

func ipFor(ns, svc string, i int) string {
	n := 1
	if ns == "b" || ns == "ab" {
		n = 2
	}
	return fmt.Sprintf("10.%d.%s.%d", n, strings.TrimPrefix(svc, "s"), i)
}

func (g *G) genService(ns, name string) *world.Obj {
	o := &world.Obj{Kind: world.KService, NS: ns, Name: name}
	o.Ports = append([]world.SvcPort{}, rapid.SampledFrom(svcPortLayouts).Draw(g.t, "ports")...)
	if len(g.P.SvcAnn) > 0 && g.chance("svcann", 25) {
		a := rapid.SampledFrom(g.P.SvcAnn).Draw(g.t, "svcannkey")
		o.Ann = map[string]string{a.Key: g.pick("svcannval", a.Values)}
	}
	if g.P.Pods {
		o.Selector = map[string]string{"app": ns + "-" + name}
	}
	return o
}

func epPorts(svc *world.Obj) []world.SvcPort {
	var out []world.SvcPort
	for _, p := range svc.Ports {
		target := p.Port
		if p.Target != "" {
			var n int
			if _, err := fmt.Sscanf(p.Target, "%d", &n); err == nil {
				target = n
			} else {
				target = 8443 // named target port resolved by the endpoints controller
			}
		}
		out = append(out, world.SvcPort{Name: p.Name, Port: target})
	}
	return out
}

func (g *G) genEndpoints(svc *world.Obj) *world.Obj {
	o := &world.Obj{Kind: world.KEndpoints, NS: svc.NS, Name: svc.Name}
	nready := g.intn("nready", 0, g.P.MaxReady)
	ss := world.Subset{Ports: epPorts(svc)}
	k := 1
	for i := 0; i < nready; i++ {
		ss.Ready = append(ss.Ready, g.addr(svc, k))
		k++
	}
	if g.P.NotReady && g.chance("notready", 25) {
		ss.NotReady = append(ss.NotReady, g.addr(svc, k))
	}
	if len(ss.Ready)+len(ss.NotReady) > 0 {
		o.Subsets = []world.Subset{ss}
	}
	return o
}

func (g *G) addr(svc *world.Obj, k int) world.Addr {
	a := world.Addr{IP: ipFor(svc.NS, svc.Name, k)}
	if g.P.Pods {
		a.Pod = fmt.Sprintf("%s-p%d", svc.Name, k)
	}
	return a
}

func (g *G) genPath() world.Path {
	p := world.Path{Path: g.pick("path", g.P.Paths), Svc: g.pick("svc", g.svcs())}
	p.Type = g.pick("ptype", []string{"Prefix", "Exact", "ImplementationSpecific", "Prefix", ""})
	// port reference: by number or by name, sometimes a missing one
	r := g.intn("portref", 0, 9)
	switch {
	case r < 4:
		p.Port = "80"
	case r < 6:
		p.Port = "8000"
	case r < 8:
		p.Port = "http"
	case r < 9:
		p.Port = "web"
	default:
		p.Port = "9090"
	}
	return p
}

func (g *G) fixPort(ns string, p *world.Path) {
	// Prefer a port the service really has, so that most rules are effective;
	// MissingRefs keeps some dangling on purpose.
	svc := g.W.Get(world.KService, ns+"/"+p.Svc)
	if svc == nil || len(svc.Ports) == 0 {
		return
	}
	if g.P.MissingRefs && g.chance("keepdangling", 15) {
		return
	}
	for _, sp := range svc.Ports {
		if fmt.Sprint(sp.Port) == p.Port || (sp.Name != "" && sp.Name == p.Port) {
			return
		}
	}
	sp0 := svc.Ports[g.intn("whichport", 0, len(svc.Ports)-1)]
	if sp0.Name != "" && g.chance("byname", 40) {
		p.Port = sp0.Name
	} else {
		p.Port = fmt.Sprint(sp0.Port)
	}
}

func (g *G) genIngress(ns, name string, created int) *world.Obj {
	o := &world.Obj{Kind: world.KIngress, NS: ns, Name: name, Created: created}
	g.classify(o)
	nrules := g.intn("nrules", 1, 2)
	if g.P.Sparse {
		nrules = 1
	}
	for i := 0; i < nrules; i++ {
		hosts := g.P.Hosts
		if g.P.EmptyHost && g.chance("emptyhost", 10) {
			hosts = []string{""}
		}
		r := world.Rule{Host: g.pick("host", hosts)}
		np := g.intn("npaths", 1, 2)
		if g.P.Sparse {
			np = 1
		}
		for j := 0; j < np; j++ {
			p := g.genPath()
			g.fixPort(ns, &p)
			r.Paths = append(r.Paths, p)
		}
		o.Rules = append(o.Rules, r)
	}
	defBackPct, defBackOnlyPct := 12, 30
	if g.P.DefBackPct > 0 {
		defBackPct, defBackOnlyPct = g.P.DefBackPct, g.P.DefBackOnlyPct
	}
	if g.P.DefBackend && g.chance("defback", defBackPct) && g.defBackAllowed(o) {
		p := g.genPath()
		p.Path = ""
		p.Type = ""
		g.fixPort(ns, &p)
		o.DefBack = &p
		if g.chance("defbackonly", defBackOnlyPct) {
			// an ingress that declares nothing but spec.defaultBackend
			o.Rules = nil
		}
	}
	if g.P.TLS && g.chance("tls", 35) {
		t := world.TLS{Secret: g.pick("tlssecret", g.secretNames())}
		for _, r := range o.Rules {
			if r.Host != "" && g.chance("tlshost", 80) {
				t.Hosts = append(t.Hosts, r.Host)
			}
		}
		if g.P.MultiTLS && g.chance("tlsextra", 20) {
			t.Hosts = append(t.Hosts, g.pick("tlsextrahost", g.P.Hosts))
		}
		if len(t.Hosts) > 0 {
			o.TLS = append(o.TLS, t)
		}
	}
	g.applyBundle(o)
	nann := 0
	if len(g.P.Ann) > 0 {
		nann = g.intn("nann", 0, 2)
	}
	for i := 0; i < nann; i++ {
		a := rapid.SampledFrom(g.P.Ann).Draw(g.t, "annkey")
		if o.Ann == nil {
			o.Ann = map[string]string{}
		}
		o.Ann[a.Key] = g.pick("annval", a.Values)
		if g.P.CaseDupAnn && len(a.Values) > 1 && g.chance("casedup", 20) {
			// the same key once more with another case and another value: annotation keys are case
			// sensitive, the capitalised one is not a configuration key and must stay without effect
			if o.RawAnn == nil {
				o.RawAnn = map[string]string{}
			}
			o.RawAnn[world.AnnPrefix+strings.ToUpper(a.Key[:1])+a.Key[1:]] = g.pick("casedupval", a.Values)
		}
		if g.P.PrefixDupAnn && len(a.Values) > 1 && g.chance("prefixdup", 25) {
			// the key is declared twice with secondary prefixes: the prefix configured first wins
			if o.RawAnn == nil {
				o.RawAnn = map[string]string{}
			}
			i := g.intn("prefixdupval", 0, len(a.Values)-1)
			delete(o.Ann, a.Key)
			o.RawAnn[ctlsim.ExtraAnnPrefixes[0]+"/"+a.Key] = a.Values[i]
			o.RawAnn[ctlsim.ExtraAnnPrefixes[1]+"/"+a.Key] = a.Values[(i+1)%len(a.Values)]
		}
	}
	return o
}

func (g *G) tlsSecretNames() []string {
	if len(g.P.SecretNames) > 0 {
		return g.P.SecretNames
	}
	return []string{"t1", "t2", "t3"}
}

func (g *G) secretNames() []string {
	names := append([]string{}, g.tlsSecretNames()...)
	if g.P.MissingRefs {
		names = append(names, "missing")
	}
	return names
}

// defBackAllowed: with SingleDefBack at most one ingress of the world declares spec.defaultBackend.
func (g *G) defBackAllowed(o *world.Obj) bool {
	if !g.P.SingleDefBack {
		return true
	}
	for _, x := range g.W.OfKind(world.KIngress) {
		if x.DefBack != nil && x.FullName() != o.FullName() {
			return false
		}
	}
	return true
}

// applyBundle switches one feature on (the world's theme or a random bundle).
func (g *G) applyBundle(o *world.Obj) {
	g.drawTheme()
	useTheme := g.theme > 0 && g.chance("usetheme", g.themePct)
	if useTheme || (len(g.P.Bundles) > 0 && g.chance("bundle", g.P.BundlePct)) {
		b := g.P.Bundles[g.intn("whichbundle", 0, len(g.P.Bundles)-1)]
		if useTheme {
			b = g.P.Bundles[g.theme-1]
		}
		if o.Ann == nil {
			o.Ann = map[string]string{}
		}
		for _, k := range b.Keys {
			o.Ann[k.Key] = g.pick("bundleval", k.Values)
		}
		if b.Path != "" && len(o.Rules) > 0 {
			p := g.genPath()
			p.Path = b.Path
			g.fixPort(o.NS, &p)
			o.Rules[0].Paths = append(o.Rules[0].Paths, p)
		}
		if b.Root {
			for i := range o.Rules {
				o.Rules[i].Paths = o.Rules[i].Paths[:1]
				o.Rules[i].Paths[0].Path = "/"
			}
		}
		if o.Ann["tcp-service-port"] != "" && g.P.TLS && len(o.Rules) > 0 && g.chance("tcpdefaulttls", 30) {
			// the default (no SNI) service of a tcp port with TLS: a rule without host and a tls entry without hosts
			o.Rules[0].Host = ""
			o.TLS = []world.TLS{{Secret: g.pick("tlssecret", g.secretNames())}}
		}
	}
}

// drawTheme decides once per world whether it has a recurring feature ("theme"): several
// ingresses then share userlists, auth backends, tcp ports, ... which is where the
// cross-object bookkeeping is exercised.
func (g *G) drawTheme() {
	if len(g.P.Bundles) > 0 && g.theme == 0 {
		g.theme, g.themePct = -1, 55
		if g.chance("hastheme", 60) {
			g.theme = 1 + g.intn("theme", 0, len(g.P.Bundles)-1)
			if g.chance("focused", 50) {
				// focused world: one namespace, nearly every ingress carries the feature
				g.P.NS = g.P.NS[:1]
				g.themePct = 90
				if g.P.SparseOK && g.chance("sparse", 70) {
					// ... and the ingresses have few other links among them: own host, own service
					g.P.Sparse = true
					g.P.Hosts = []string{"h1.local", "h2.local", "h3.local", "h4.local", "h5.local", "h6.local"}
					g.P.Svcs = []string{"s1", "s2", "s3", "s4", "s5", "s6"}
					g.P.EmptyHost, g.P.DefBackend, g.P.MultiTLS = false, false, false
					if g.P.MinIng < 3 {
						g.P.MinIng = 3
					}
					if g.P.MaxIng < 6 {
						g.P.MaxIng = 6
					}
				}
			}
		}
	}
}

// controllers that are not this one; some of their names extend, or are a prefix of, ours
var foreignControllers = []string{"example.com/other", "example.com/other", world.ControllerName + "-next", world.ControllerName + "/internal", "haproxy-ingress.github.io"}

// classify sets the class selection of an ingress.
func (g *G) classify(o *world.Obj) {
	// Every ingress that names an IngressClass in spec.ingressClassName is linked to it in the tracker, so all
	// the ingresses of one class form one connected component and a change of one of them re-parses all of them.
	// Ingresses selected by the annotation are not linked to each other: they are where the per-object tracking
	// of a partial sync is really exercised, so most ingresses use the annotation.
	if !g.P.Classes {
		if g.chance("classbyann", 65) {
			o.RawAnn = map[string]string{world.ClassAnn: world.OurClass}
		} else {
			o.ClassName = sp(world.OurClass)
		}
		return
	}
	switch g.intn("classmode", 0, 19) {
	case 18: // the annotation is there, with an empty value (a chart rendering an unset value)
		o.RawAnn = map[string]string{world.ClassAnn: ""}
	case 19:
		o.RawAnn = map[string]string{world.ClassAnn: ""}
		o.ClassName = sp(world.OurClass)
	case 0, 1:
		o.ClassName = sp(world.OurClass)
	case 2, 3, 4, 5, 14, 15, 16, 17:
		o.RawAnn = map[string]string{world.ClassAnn: world.OurClass}
	case 6:
		o.ClassName = sp("other")
	case 7:
		o.RawAnn = map[string]string{world.ClassAnn: "nginx"}
	case 8:
		// unclassified
	case 9:
		o.ClassName = sp("dangling")
	case 10: // annotation and class disagree
		o.RawAnn = map[string]string{world.ClassAnn: world.OurClass}
		o.ClassName = sp("other")
	case 11:
		o.RawAnn = map[string]string{world.ClassAnn: "nginx"}
		o.ClassName = sp(world.OurClass)
	case 12:
		o.RawAnn = map[string]string{world.ClassAnn: world.OurClass}
		o.ClassName = sp(world.OurClass)
	case 13:
		o.RawAnn = map[string]string{world.ClassAnn: world.OurClass}
		o.ClassName = sp("dangling")
	}
}

// genWorld builds an initial world.
func (g *G) genWorld() {
	g.drawTheme()
	g.add(&world.Obj{Kind: world.KIngressClass, Name: world.OurClass, Controller: world.ControllerName})
	if g.P.Classes {
		g.add(&world.Obj{Kind: world.KIngressClass, Name: "other", Controller: g.pick("foreignctl", foreignControllers)})
	}
	if g.P.GlobalCM {
		cm := &world.Obj{Kind: world.KConfigMap, NS: world.CtlNS, Name: "haproxy-ingress", Data: map[string]string{}}
		for _, k := range g.P.GlobalKeys {
			if g.chance("globalkey", 50) {
				cm.Data[k.Key] = g.pick("globalval", k.Values)
			}
		}
		for k, v := range g.P.GlobalAlways {
			cm.Data[k] = v
		}
		g.add(cm)
	}
	for _, ns := range g.P.NS {
		for _, s := range g.svcs() {
			if g.P.MissingRefs && g.chance("nosvc", 10) {
				continue
			}
			svc := g.add(g.genService(ns, s))
			if !(g.P.MissingRefs && g.chance("noep", 8)) {
				g.add(g.genEndpoints(svc))
			}
		}
		if g.P.TLS {
			for i, n := range g.tlsSecretNames() {
				if g.P.MissingRefs && g.chance("nosecret", 10) {
					continue
				}
				kind := "tls"
				if g.chance("chainsecret", 25) {
					kind = "tlschain" // leaf followed by its issuer, the usual content of an issued certificate
				}
				if g.P.MissingRefs && g.chance("badsecret", 8) {
					kind = g.pick("badkind", []string{"bad", "mismatch"})
				}
				g.add(&world.Obj{Kind: world.KSecret, NS: ns, Name: n, SecretKind: kind, Cert: g.intn("cert", 0, world.PoolSize()-1) + 0*i})
			}
		}
		if g.P.AuthSecret {
			g.add(&world.Obj{Kind: world.KSecret, NS: ns, Name: "pw", SecretKind: "auth", Auth: "usr1::clear1\n"})
			g.add(&world.Obj{Kind: world.KSecret, NS: ns, Name: "pw2", SecretKind: "auth", Auth: "usr2::clear2\n"})
			// a password file without a single valid user: the userlist is empty but still declared and referenced
			g.add(&world.Obj{Kind: world.KSecret, NS: ns, Name: "pw3", SecretKind: "auth", Auth: g.pick("emptyauth", []string{"", "# nobody\n", "usr3\n"})})
		}
	}
	minIng := 1
	if g.P.MinIng > 0 {
		minIng = g.P.MinIng
	}
	ning := g.intn("ning", minIng, g.P.MaxIng)
	for i := 0; i < ning; i++ {
		ns := g.pick("ingns", g.P.NS)
		name := fmt.Sprintf("i%d", i+1)
		g.add(g.genIngress(ns, name, g.intn("created", 0, 3)))
	}
}

// ---------- mutations (history generation) ----------

func (g *G) existing(kind string) []*world.Obj { return g.W.OfKind(kind) }

// genOp draws one applicable operation and applies it to the model.
func (g *G) genOp(kinds []string) (world.Op, bool) {
	kind := g.pick("opkind", kinds)
	var op world.Op
	switch kind {
	case world.KIngress:
		ex := g.existing(kind)
		r := g.intn("ingop", 0, 9)
		if g.P.IngDeletePct > 0 && len(ex) > 1 && g.chance("ingdelete", g.P.IngDeletePct) {
			r = 9
		}
		switch {
		case r < 3 || len(ex) == 0: // create
			name := fmt.Sprintf("i%d", g.nextIngNum())
			// the API server stamps a new object with the current time: never older than what exists (ties are common)
			created := 2
			for _, o := range ex {
				if o.Created > created {
					created = o.Created
				}
			}
			op = world.Op{Op: "create", Obj: g.genIngress(g.pick("ingns", g.P.NS), name, created+g.intn("createdplus", 0, 1))}
		case r < 8: // update
			cur := ex[g.intn("which", 0, len(ex)-1)]
			op = world.Op{Op: "update", Obj: g.mutateIngress(cur)}
		default:
			op = world.Op{Op: "delete", Obj: ex[g.intn("which", 0, len(ex)-1)].Clone()}
		}
	case world.KService:
		ns, name := g.pick("svcns", g.P.NS), g.pick("svcname", g.svcs())
		cur := g.W.Get(kind, ns+"/"+name)
		switch {
		case cur == nil:
			op = world.Op{Op: "create", Obj: g.genService(ns, name)}
		case g.chance("svcdel", 25):
			op = world.Op{Op: "delete", Obj: cur.Clone()}
		default:
			n := g.genService(ns, name)
			if g.chance("keepports", 60) {
				n.Ports = cur.Ports
			}
			op = world.Op{Op: "update", Obj: n}
		}
	case world.KEndpoints:
		ns, name := g.pick("epns", g.P.NS), g.pick("epname", g.svcs())
		cur := g.W.Get(kind, ns+"/"+name)
		svc := g.W.Get(world.KService, ns+"/"+name)
		switch {
		case cur == nil && svc == nil:
			return op, false
		case cur == nil:
			op = world.Op{Op: "create", Obj: g.genEndpoints(svc)}
		case svc == nil || g.chance("epdel", 10):
			op = world.Op{Op: "delete", Obj: cur.Clone()}
		default:
			op = world.Op{Op: "update", Obj: g.mutateEndpoints(cur, svc)}
		}
	case world.KSecret:
		ns, name := g.pick("secns", g.P.NS), g.pick("secname", g.tlsSecretNames())
		cur := g.W.Get(kind, ns+"/"+name)
		switch {
		case cur == nil:
			op = world.Op{Op: "create", Obj: &world.Obj{Kind: kind, NS: ns, Name: name, SecretKind: "tls", Cert: g.intn("cert", 0, world.PoolSize()-1)}}
		case g.chance("secdel", 25):
			op = world.Op{Op: "delete", Obj: cur.Clone()}
		default:
			n := cur.Clone()
			n.SecretKind = "tls"
			n.Cert = g.intn("cert", 0, world.PoolSize()-1)
			if g.P.MissingRefs && g.chance("tobad", 10) {
				n.SecretKind = g.pick("badkind", []string{"bad", "mismatch"})
			}
			op = world.Op{Op: "update", Obj: n}
		}
	case world.KIngressClass:
		name := g.pick("icname", []string{world.OurClass, "other", "dangling"})
		cur := g.W.Get(kind, name)
		switch {
		case cur == nil:
			ctl := world.ControllerName
			if name == "other" || g.chance("foreignctl", 30) {
				ctl = g.pick("foreignctlname", foreignControllers)
			}
			op = world.Op{Op: "create", Obj: &world.Obj{Kind: kind, Name: name, Controller: ctl}}
		case g.chance("icdel", 40):
			op = world.Op{Op: "delete", Obj: cur.Clone()}
		default:
			n := cur.Clone()
			if n.Controller == world.ControllerName {
				n.Controller = g.pick("foreignctlname", foreignControllers)
			} else {
				n.Controller = world.ControllerName
			}
			op = world.Op{Op: "update", Obj: n}
		}
	case world.KConfigMap:
		cur := g.W.Get(kind, world.GlobalCM)
		n := &world.Obj{Kind: kind, NS: world.CtlNS, Name: "haproxy-ingress", Data: map[string]string{}}
		for _, k := range g.P.GlobalKeys {
			if g.chance("globalkey", 50) {
				n.Data[k.Key] = g.pick("globalval", k.Values)
			}
		}
		for k, v := range g.P.GlobalAlways {
			n.Data[k] = v
		}
		if cur == nil {
			op = world.Op{Op: "create", Obj: n}
		} else {
			op = world.Op{Op: "update", Obj: n}
		}
	case world.KPod:
		pods := g.existing(kind)
		if len(pods) == 0 {
			return op, false
		}
		cur := pods[g.intn("whichpod", 0, len(pods)-1)]
		n := cur.Clone()
		n.Terminating = !n.Terminating
		op = world.Op{Op: "update", Obj: n}
	default:
		panic("genOp: " + kind)
	}
	for _, av := range g.P.Avoid {
		if isKnownSig(av.Sig) && av.Pred(g.W, op) {
			g.Excluded[av.Sig]++
			return op, false
		}
	}
	if _, _, err := g.W.Apply(op); err != nil {
		panic(fmt.Sprintf("generator produced inapplicable op %v: %v", op, err))
	}
	return op, true
}

// isKnownSig reports whether a signature is listed as known (not fixed).
func isKnownSig(sig string) bool {
	for _, k := range knownFindings() {
		if k.Status == "known" && k.Signature == sig {
			return true
		}
	}
	return false
}

func (g *G) nextIngNum() int {
	max := 0
	for _, o := range g.W.OfKind(world.KIngress) {
		var n int
		if _, err := fmt.Sscanf(o.Name, "i%d", &n); err == nil && n > max {
			max = n
		}
	}
	// names of deleted ingresses may be reused (delete+create of one name)
	if max > 1 && g.chance("reusename", 30) {
		n := g.intn("reuse", 1, max)
		for _, ns := range g.P.NS {
			if g.W.Get(world.KIngress, fmt.Sprintf("%s/i%d", ns, n)) != nil {
				return max + 1
			}
		}
		return n
	}
	return max + 1
}

func (g *G) mutateIngress(cur *world.Obj) *world.Obj {
	n := cur.Clone()
	nmut := 8
	if len(g.P.Bundles) > 0 {
		nmut = 10
	}
	mut := g.intn("ingmut", 0, nmut)
	if g.P.Classes && g.chance("reclassify", 20) {
		mut = 8 // class changes are what moves an ingress in and out of this controller's set
	}
	if len(n.Rules) == 0 && (mut == 1 || mut == 2 || mut == 3 || (mut == 8 && !g.P.Classes)) {
		mut = 0 // an ingress without rules can only gain one
	}
	switch mut {
	case 9, 10: // switch the feature bundle: drop every bundle key, maybe apply another one (or the same with other values)
		for _, b := range g.P.Bundles {
			for _, k := range b.Keys {
				delete(n.Ann, k.Key)
			}
		}
		g.applyBundle(n)
	case 0: // add a rule
		r := world.Rule{Host: g.pick("host", g.P.Hosts)}
		p := g.genPath()
		g.fixPort(n.NS, &p)
		r.Paths = []world.Path{p}
		n.Rules = append(n.Rules, r)
	case 1: // remove a rule
		if len(n.Rules) > 1 {
			i := g.intn("rule", 0, len(n.Rules)-1)
			n.Rules = append(n.Rules[:i], n.Rules[i+1:]...)
		} else {
			n.Rules[0].Host = g.pick("host", g.P.Hosts)
		}
	case 2: // add a path
		i := g.intn("rule", 0, len(n.Rules)-1)
		p := g.genPath()
		g.fixPort(n.NS, &p)
		n.Rules[i].Paths = append(n.Rules[i].Paths, p)
	case 3: // change the service of a path
		i := g.intn("rule", 0, len(n.Rules)-1)
		j := g.intn("pathidx", 0, len(n.Rules[i].Paths)-1)
		n.Rules[i].Paths[j].Svc = g.pick("svc", g.svcs())
		g.fixPort(n.NS, &n.Rules[i].Paths[j])
	case 4: // toggle tls
		if !g.P.TLS {
			break
		}
		if len(n.TLS) > 0 {
			if g.chance("droptls", 50) {
				n.TLS = nil
			} else {
				n.TLS[0].Secret = g.pick("tlssecret", g.secretNames())
			}
		} else {
			t := world.TLS{Secret: g.pick("tlssecret", g.secretNames())}
			for _, r := range n.Rules {
				if r.Host != "" {
					t.Hosts = append(t.Hosts, r.Host)
				}
			}
			if len(t.Hosts) > 0 || n.Ann["tcp-service-port"] != "" {
				n.TLS = []world.TLS{t}
			}
		}
	case 5, 6: // change / add / remove an annotation
		if len(g.P.Ann) == 0 {
			break
		}
		a := rapid.SampledFrom(g.P.Ann).Draw(g.t, "annkey")
		if n.Ann == nil {
			n.Ann = map[string]string{}
		}
		if _, ok := n.Ann[a.Key]; ok && g.chance("rmann", 40) {
			delete(n.Ann, a.Key)
		} else {
			n.Ann[a.Key] = g.pick("annval", a.Values)
		}
	case 7: // default backend
		if !g.P.DefBackend {
			break
		}
		if n.DefBack != nil {
			if len(n.Rules) > 0 {
				n.DefBack = nil
			}
		} else if g.defBackAllowed(n) {
			p := g.genPath()
			p.Path, p.Type = "", ""
			g.fixPort(n.NS, &p)
			n.DefBack = &p
		}
	case 8: // class
		if g.P.Classes {
			n.ClassName = nil
			delete(n.RawAnn, world.ClassAnn)
			g.classify(n)
		} else {
			i := g.intn("rule", 0, len(n.Rules)-1)
			n.Rules[i].Host = g.pick("host", g.P.Hosts)
		}
	}
	return n
}

func (g *G) mutateEndpoints(cur, svc *world.Obj) *world.Obj {
	n := cur.Clone()
	if len(n.Subsets) == 0 {
		n.Subsets = []world.Subset{{Ports: epPorts(svc)}}
	}
	ss := &n.Subsets[0]
	ss.Ports = epPorts(svc)
	used := map[string]bool{}
	for _, a := range append(append([]world.Addr{}, ss.Ready...), ss.NotReady...) {
		used[a.IP] = true
	}
	free := func() (world.Addr, bool) {
		for k := 1; k <= 9; k++ {
			a := g.addr(svc, k)
			if !used[a.IP] {
				return a, true
			}
		}
		return world.Addr{}, false
	}
	switch g.intn("epmut", 0, 5) {
	case 0, 1: // add
		if a, ok := free(); ok {
			ss.Ready = append(ss.Ready, a)
		}
	case 2: // remove
		if len(ss.Ready) > 0 {
			i := g.intn("epidx", 0, len(ss.Ready)-1)
			ss.Ready = append(ss.Ready[:i], ss.Ready[i+1:]...)
		}
	case 3: // replace
		if a, ok := free(); ok && len(ss.Ready) > 0 {
			ss.Ready[g.intn("epidx", 0, len(ss.Ready)-1)] = a
		}
	case 4: // ready -> notReady
		if g.P.NotReady && len(ss.Ready) > 0 {
			i := g.intn("epidx", 0, len(ss.Ready)-1)
			ss.NotReady = append(ss.NotReady, ss.Ready[i])
			ss.Ready = append(ss.Ready[:i], ss.Ready[i+1:]...)
		}
	case 5: // notReady -> ready
		if len(ss.NotReady) > 0 {
			ss.Ready = append(ss.Ready, ss.NotReady[0])
			ss.NotReady = ss.NotReady[1:]
		}
	}
	if len(ss.Ready)+len(ss.NotReady) == 0 {
		n.Subsets = nil
	}
	return n
}

// ---------- request alphabet ----------

// requestsFor derives the request alphabet of a world: declared hosts (plus an
// undeclared one, an upper-case and a host:port spelling) x declared paths and
// their neighbours x {http, https}.
func requestsFor(objs []*world.Obj) ([]hapcfg.Request, []string) {
	hostSet := map[string]bool{"unknown.local": true}
	pathSet := map[string]bool{"/": true, "/zz": true}
	for _, o := range objs {
		if o.Kind == world.KHTTPRoute && o.RT != nil {
			for _, h := range o.RT.Hostnames {
				hostSet[h] = true
			}
			for _, r := range o.RT.Rules {
				for _, m := range r.Matches {
					if m.Value != "" {
						pathSet[m.Value] = true
						pathSet[strings.TrimRight(m.Value, "/")+"/x"] = true
					}
				}
			}
		}
		if o.Kind != world.KIngress {
			continue
		}
		for _, r := range o.Rules {
			if r.Host != "" {
				hostSet[r.Host] = true
			}
			for _, p := range r.Paths {
				pp := p.Path
				if pp == "" {
					pp = "/"
				}
				pathSet[pp] = true
				pathSet[strings.TrimRight(pp, "/")+"/x"] = true
				pathSet[pp+"1"] = true
				pathSet[strings.ToUpper(pp)] = true
				if i := strings.LastIndex(strings.TrimRight(pp, "/"), "/"); i > 0 {
					pathSet[pp[:i]] = true
				}
			}
		}
		for _, t := range o.TLS {
			for _, h := range t.Hosts {
				hostSet[h] = true
			}
		}
		if v := o.Ann["server-alias"]; v != "" {
			hostSet[v] = true
		}
		if v := o.Ann["redirect-from"]; v != "" {
			hostSet[v] = true
		}
	}
	var hosts, paths []string
	for h := range hostSet {
		hosts = append(hosts, h)
	}
	for p := range pathSet {
		paths = append(paths, p)
	}
	sort.Strings(hosts)
	sort.Strings(paths)
	var reqs []hapcfg.Request
	for i, h := range hosts {
		spell := h
		if strings.HasPrefix(h, "*.") {
			spell = "x" + h[1:]
		}
		for _, p := range paths {
			reqs = append(reqs, hapcfg.Request{Host: spell, Path: p}, hapcfg.Request{Host: spell, Path: p, HTTPS: true})
		}
		// spelling variants on one path only
		if i < 3 {
			reqs = append(reqs, hapcfg.Request{Host: strings.ToUpper(spell) + ":8080", Path: paths[0]})
		}
	}
	snis := append([]string{}, hosts...)
	for _, h := range hosts {
		if strings.HasPrefix(h, "*.") {
			snis = append(snis, "x"+h[1:], "y.x"+h[1:])
		}
	}
	return reqs, snis
}

// pathTypeOf maps an ingress path to the controller's match type (documented:
// Exact, Prefix, else the path-type annotation, default begin).
func pathTypeOf(o *world.Obj, p world.Path) string {
	switch p.Type {
	case "Exact":
		return "exact"
	case "Prefix":
		return "prefix"
	}
	switch strings.ToLower(o.Ann["path-type"]) {
	case "prefix":
		return "prefix"
	case "exact":
		return "exact"
	case "regex":
		return "regex"
	}
	return "begin"
}

// dropAmbiguous removes the requests for which the documentation defines no
// winner: a host declares the same path (compared case-insensitively, trailing
// slash ignored) with both non-exact types and the request lies under it. The
// statement of C04 grants that either rule may win there, so two correct
// configurations may route such a request differently.
func dropAmbiguous(objs []*world.Obj, reqs []hapcfg.Request) ([]hapcfg.Request, int) {
	type key struct{ host, path string }
	types := map[key]map[string]bool{}
	for _, o := range objs {
		if o.Kind != world.KIngress {
			continue
		}
		for _, r := range o.Rules {
			for _, p := range r.Paths {
				pp := p.Path
				if pp == "" {
					pp = "/"
				}
				k := key{strings.ToLower(r.Host), strings.ToLower(strings.TrimRight(pp, "/"))}
				if types[k] == nil {
					types[k] = map[string]bool{}
				}
				types[k][pathTypeOf(o, p)] = true
			}
		}
	}
	var amb []key
	for k, t := range types {
		if t["prefix"] && t["begin"] {
			amb = append(amb, k)
		}
	}
	if len(amb) == 0 {
		return reqs, 0
	}
	var out []hapcfg.Request
	dropped := 0
	for _, rq := range reqs {
		h := strings.ToLower(rq.Host)
		if i := strings.Index(h, ":"); i >= 0 {
			h = h[:i]
		}
		p := strings.ToLower(rq.Path)
		skip := false
		for _, k := range amb {
			// rules of the default host ("") may answer any host
			if (k.host == h || k.host == "") && strings.HasPrefix(p, k.path) {
				skip = true
			}
		}
		if skip {
			dropped++
		} else {
			out = append(out, rq)
		}
	}
	return out, dropped
}

// HistCase is an initial world plus batches of operations.
type HistCase struct {
	Params  ctlsim.Params `json:"params"`
	Init    []*world.Obj  `json:"init"`
	Batches [][]world.Op  `json:"batches"`
	Split   []int         `json:"split,omitempty"` // per batch: events delivered before the first reconcile (-1 = all)
	// Excluded counts generated ops dropped because they fall in the input class of a known finding
	Excluded map[string]int `json:"excluded,omitempty"`
}

// rotateTogether: one batch that gives several tls secrets the same new certificate (a wildcard
// certificate copied to several namespaces and renewed at once).
func (g *G) rotateTogether() []world.Op {
	if !g.P.RotateTogether || !g.chance("rotate-together", 10) {
		return nil
	}
	var tls []*world.Obj
	for _, o := range g.existing(world.KSecret) {
		if o.SecretKind == "tls" || o.SecretKind == "tlschain" {
			tls = append(tls, o)
		}
	}
	if len(tls) < 2 {
		return nil
	}
	cert := g.intn("cert", 0, world.PoolSize()-1)
	first := g.intn("rotfirst", 0, len(tls)-2)
	n := g.intn("rotcount", 2, 3)
	var ops []world.Op
	for _, o := range tls[first:] {
		if len(ops) == n {
			break
		}
		upd := o.Clone()
		upd.Cert = cert
		op := world.Op{Op: "update", Obj: upd}
		if _, _, err := g.W.Apply(op); err != nil {
			panic(err)
		}
		ops = append(ops, world.Op{Op: "update", Obj: upd.Clone()})
	}
	return ops
}

// genHistory draws a history with the given op kinds.
func genHistory(t *rapid.T, p Profile, params ctlsim.Params, kinds []string, maxBatches, maxOps int) HistCase {
	return genHistoryX(t, p, params, kinds, maxBatches, maxOps, false)
}

// genHistoryX optionally adds the rich extras (CA secrets, pods of the endpoints, tcp ConfigMap) to the initial world.
// globalFlip (8% of the batches, when the profile changes the global ConfigMap and one of its keys has two values):
// an update of the global ConfigMap that changes one key, and the update that restores the former content.
func (g *G) globalFlip() []world.Op {
	if !g.P.GlobalCM || len(g.P.GlobalKeys) == 0 || !g.chance("globalflip", 8) {
		return nil
	}
	cur := g.W.Get(world.KConfigMap, world.GlobalCM)
	if cur == nil {
		return nil
	}
	k := g.P.GlobalKeys[g.intn("flipkey", 0, len(g.P.GlobalKeys)-1)]
	if len(k.Values) < 2 {
		return nil
	}
	mut := cur.Clone()
	if mut.Data == nil {
		mut.Data = map[string]string{}
	}
	if mut.Data[k.Key] == k.Values[0] {
		mut.Data[k.Key] = k.Values[1]
	} else {
		mut.Data[k.Key] = k.Values[0]
	}
	back := cur.Clone()
	pair := []world.Op{{Op: "update", Obj: mut}, {Op: "update", Obj: back}}
	for _, op := range pair {
		for _, av := range g.P.Avoid {
			if isKnownSig(av.Sig) && av.Pred(g.W, op) {
				return nil
			}
		}
	}
	var out []world.Op
	for _, op := range pair {
		if _, _, err := g.W.Apply(op); err != nil {
			panic(err)
		}
		out = append(out, world.Op{Op: op.Op, Obj: op.Obj.Clone()})
	}
	return out
}

func genHistoryX(t *rapid.T, p Profile, params ctlsim.Params, kinds []string, maxBatches, maxOps int, extras bool) HistCase {
	avoidParams = params
	g := newG(t, p)
	g.genWorld()
	if extras {
		g.genRichExtras()
	}
	if params.Gateway {
		g.genGatewayExtras()
	}
	c := HistCase{Params: params}
	for _, o := range g.W.List() {
		c.Init = append(c.Init, o.Clone())
	}
	nb := g.intn("nbatches", 1, maxBatches)
	for b := 0; b < nb; b++ {
		if flip := g.globalFlip(); len(flip) == 2 && b+1 < nb {
			// one global option changes and is set back by the next batch: two full syncs that leave everything else as it was
			for _, op := range flip {
				c.Batches = append(c.Batches, []world.Op{op})
				c.Split = append(c.Split, -1)
			}
			b++
			continue
		}
		nops := g.intn("nops", 1, maxOps)
		ops := g.rotateTogether()
		if len(ops) > 0 {
			nops = 0
		}
		for i := 0; i < nops; i++ {
			if op, ok := g.genOp(kinds); ok {
				ops = append(ops, world.Op{Op: op.Op, Obj: op.Obj.Clone()})
			}
		}
		if len(ops) == 0 {
			continue
		}
		c.Batches = append(c.Batches, ops)
		split := -1
		if len(ops) > 1 && g.chance("split", 15) {
			split = g.intn("splitat", 0, len(ops)-1)
		}
		c.Split = append(c.Split, split)
	}
	if len(g.Excluded) > 0 {
		c.Excluded = g.Excluded
	}
	return c
}

// ---------- feature-rich profile (C07, C18): every construct that creates a symbolic reference ----------

func richProfile() Profile {
	p := defaultProfile()
	p.MissingRefs = true
	p.GlobalCM = true
	p.AuthSecret = true
	p.Pods = true
	p.GlobalKeys = []annChoice{
		{"external-has-lua", []string{"true", "true", "false"}},
		{"strict-host", []string{"true", "false"}},
		{"auth-proxy", []string{"_front__auth:14415-14416", "_front__auth:14415-14415", "_front__auth:14415-14499"}},
		{"drain-support", []string{"true", "false"}},
	}
	p.Ann = append(p.Ann,
		annChoice{"auth-type", []string{"basic"}},
		annChoice{"auth-secret", []string{"pw", "missing", "pw3"}},
		annChoice{"auth-url", []string{"http://10.0.0.9:8080/auth", "https://10.0.0.9/auth", "http://10.0.0.10/check", "svc://s2:8000", "svc://s1:80", "svc://s9:80", "svc://s2", "http://bad host/", "ftp://10.0.0.9/x", "http://localhost:9000/a"}},
		annChoice{"auth-external-placement", []string{"frontend", "backend"}},
		annChoice{"auth-signin", []string{"http://h1.local/signin"}},
		annChoice{"oauth", []string{"oauth2_proxy", "unknown"}},
		annChoice{"ssl-passthrough", []string{"true"}},
		annChoice{"ssl-passthrough-http-port", []string{"80", "8000"}},
		annChoice{"blue-green-deploy", []string{"group=blue=1,group=green=3"}},
		annChoice{"blue-green-header", []string{"X-Server:group"}},
		annChoice{"assign-backend-server-id", []string{"true"}},
		annChoice{"backend-server-naming", []string{"sequence", "ip", "pod"}},
		annChoice{"affinity", []string{"cookie"}},
		annChoice{"server-alias", []string{"alias.local"}},
		annChoice{"redirect-from", []string{"old.local"}},
		annChoice{"tcp-service-port", []string{"7000", "7001"}},
		annChoice{"auth-tls-secret", []string{"ca1", "missing"}},
	)
	p.Paths = append(append([]string{}, basePaths...), "/oauth2")
	authURLs := []string{"http://10.0.0.9:8080/auth", "https://10.0.0.9/auth", "http://10.0.0.10/check", "svc://s2:8000", "svc://s1:80", "svc://s9:80", "svc://s2", "http://bad host/", "ftp://10.0.0.9/x"}
	p.Bundles = []annBundle{
		{Name: "basic-auth", Keys: []annChoice{{"auth-type", []string{"basic"}}, {"auth-secret", []string{"pw", "pw", "missing", "pw3"}}}},
		{Name: "auth-url-backend", Keys: []annChoice{{"auth-url", authURLs}, {"auth-external-placement", []string{"backend"}}}},
		{Name: "auth-url-frontend", Keys: []annChoice{{"auth-url", authURLs}, {"auth-external-placement", []string{"frontend"}}}},
		{Name: "oauth", Keys: []annChoice{{"oauth", []string{"oauth2_proxy"}}}, Path: "/oauth2"},
		{Name: "oauth-nopath", Keys: []annChoice{{"oauth", []string{"oauth2_proxy"}}}},
		{Name: "tcp", Keys: []annChoice{{"tcp-service-port", []string{"7000", "7001"}}}, Root: true},
		{Name: "passthrough", Keys: []annChoice{{"ssl-passthrough", []string{"true"}}}, Root: true},
		{Name: "bluegreen", Keys: []annChoice{{"blue-green-deploy", []string{"group=blue=1,group=green=3"}}, {"blue-green-header", []string{"X-Server:group"}}}},
		{Name: "server-id", Keys: []annChoice{{"assign-backend-server-id", []string{"true"}}, {"backend-server-naming", []string{"pod", "ip"}}}},
		{Name: "cookie-pod-uid", Keys: []annChoice{{"affinity", []string{"cookie"}}, {"session-cookie-preserve", []string{"true"}}, {"session-cookie-dynamic", []string{"false"}},
			{"session-cookie-value-strategy", []string{"pod-uid"}}, {"slots-min-free", []string{"2", "4"}}}},
	}
	p.BundlePct = 55
	return p
}

// podFor is the Pod object behind an endpoint address.
func podFor(ns, svc string, a world.Addr, i int) *world.Obj {
	lb := map[string]string{"app": ns + "-" + svc}
	if i%2 == 0 {
		lb["group"] = "blue"
	} else {
		lb["group"] = "green"
	}
	return &world.Obj{Kind: world.KPod, NS: ns, Name: a.Pod, Labels: lb, PodIP: a.IP, UID: "uid-" + ns + "-" + a.Pod, ContPorts: []world.SvcPort{{Name: "web", Port: 8443}}}
}

// genPods creates the Pod object behind every endpoint address; terminatingPct of them are being deleted
// (deletionTimestamp set) while their address is still published.
func (g *G) genPods(terminatingPct int) {
	for _, ep := range g.W.OfKind(world.KEndpoints) {
		for _, ss := range ep.Subsets {
			for i, a := range append(append([]world.Addr{}, ss.Ready...), ss.NotReady...) {
				if a.Pod == "" || g.W.Get(world.KPod, ep.NS+"/"+a.Pod) != nil {
					continue
				}
				pod := podFor(ep.NS, ep.Name, a, i)
				if g.P.UnlabeledPods && g.chance("unlabeled", 33) {
					delete(pod.Labels, "group")
				}
				pod.Terminating = g.chance("terminating", terminatingPct)
				g.add(pod)
			}
		}
	}
}

// genGatewayExtras adds a Gateway of this controller and 1..3 HTTPRoutes to a world of ingresses: the Gateway API
// objects do not change during the history (every change of them forces a full sync), but the hosts and backends
// they configure are shared with the ingresses, which are synced partially.
func (g *G) genGatewayExtras() {
	g.add(&world.Obj{Kind: world.KGatewayClass, Name: "gwc", Controller: world.ControllerName})
	for _, ns := range g.P.NS {
		if g.W.Get(world.KNamespace, ns) == nil {
			g.add(&world.Obj{Kind: world.KNamespace, Name: ns})
		}
	}
	gwns := g.P.NS[0]
	g.add(&world.Obj{Kind: world.KGateway, NS: gwns, Name: "gw", GW: &world.GatewaySpec{Class: "gwc", Listeners: []world.Listener{{Name: "l1", Port: 80, Protocol: "HTTP", From: "All"}}}})
	n := g.intn("nroutes", 1, 3)
	for i := 0; i < n; i++ {
		ns := g.pick("rtns", g.P.NS)
		rt := &world.Obj{Kind: world.KHTTPRoute, NS: ns, Name: fmt.Sprintf("r%d", i+1), Created: g.intn("created", 0, 3), RT: &world.RouteSpec{
			Parents: []world.ParentRef{{Name: "gw", NS: sp(gwns)}}}}
		switch g.intn("rthosts", 0, 3) {
		case 0: // no hostname: the default host
		case 1:
			rt.RT.Hostnames = []string{g.pick("rthost", g.P.Hosts)}
		default:
			rt.RT.Hostnames = []string{"gw.local"}
		}
		port := 80
		rt.RT.Rules = []world.RouteRule{{
			Matches:  []world.Match{{Type: g.pick("mtype", []string{"PathPrefix", "Exact"}), Value: g.pick("mvalue", []string{"/", "/gw", "/app"})}},
			Backends: []world.BackRef{{Name: g.pick("bsvc", g.svcs()), Port: &port}},
		}}
		g.add(rt)
	}
}

// genRichExtras adds objects the rich profile refers to (CA secret, pods, tcp ConfigMap).
func (g *G) genRichExtras() {
	for _, ns := range g.P.NS {
		g.add(&world.Obj{Kind: world.KSecret, NS: ns, Name: "ca1", SecretKind: "ca", Cert: 0})
		for _, ep := range g.W.OfKind(world.KEndpoints) {
			if ep.NS != ns {
				continue
			}
			for _, ss := range ep.Subsets {
				for i, a := range append(append([]world.Addr{}, ss.Ready...), ss.NotReady...) {
					if a.Pod == "" || g.W.Get(world.KPod, ns+"/"+a.Pod) != nil {
						continue
					}
					g.add(podFor(ns, ep.Name, a, i))
				}
			}
		}
	}
	if !g.P.NoTCPCM && g.chance("tcpcm", 30) {
		g.add(&world.Obj{Kind: world.KConfigMap, NS: world.CtlNS, Name: "tcp-services", Data: map[string]string{
			"7100": "a/s1:80", "7101": g.pick("tcpcmval", []string{"b/s2:8000", "a/s9:80", "a/s1:80::PROXY"}),
		}})
	}
}
