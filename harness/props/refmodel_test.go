package props

import (
	"fmt"
	"sort"
	"strconv"
	"strings"

	"verifharness/ctlsim"
	"verifharness/world"
)

// Reference model of the documented routing rules, computed from the cluster
// objects only (never from the controller's model).

// refSelected is the documented Ingress class rule ("Class matter" in the docs
// and the --watch-ingress-without-class / --ingress-class-precedence options).
func refSelected(w *world.World, p ctlsim.Params, ing *world.Obj) bool {
	ann, hasAnn := ing.RawAnn[world.ClassAnn]
	var fromAnn bool
	if p.WatchWithoutClass {
		fromAnn = !hasAnn || ann == world.OurClass
	} else {
		fromAnn = hasAnn && ann == world.OurClass
	}
	hasClass := ing.ClassName != nil
	fromClass := false
	if hasClass {
		if ic := w.Get(world.KIngressClass, *ing.ClassName); ic != nil {
			fromClass = ic.Controller == world.ControllerName
		}
	}
	if hasAnn {
		if hasClass && fromAnn != fromClass && p.ClassPrecedence {
			return fromClass
		}
		return fromAnn
	}
	if hasClass {
		return fromClass
	}
	return fromAnn
}

func sortedIngresses(w *world.World, p ctlsim.Params) []*world.Obj {
	var out []*world.Obj
	for _, o := range w.OfKind(world.KIngress) {
		if refSelected(w, p, o) {
			out = append(out, o)
		}
	}
	sort.SliceStable(out, func(i, j int) bool {
		if out[i].Created != out[j].Created {
			return out[i].Created < out[j].Created
		}
		return out[i].FullName() < out[j].FullName()
	})
	return out
}

// refSvcPort resolves an ingress backend port (number or name) to the service
// port, Kubernetes semantics: by service port name, or by service port number.
func refSvcPort(svc *world.Obj, ref string) *world.SvcPort {
	for i := range svc.Ports {
		if svc.Ports[i].Name != "" && svc.Ports[i].Name == ref {
			return &svc.Ports[i]
		}
	}
	if n, err := strconv.Atoi(ref); err == nil {
		for i := range svc.Ports {
			if svc.Ports[i].Port == n {
				return &svc.Ports[i]
			}
		}
	}
	return nil
}

func svcTarget(p *world.SvcPort) string {
	if p.Target == "" {
		return strconv.Itoa(p.Port)
	}
	return p.Target
}

// refBackend describes where a rule sends traffic.
type refBackend struct {
	ID      string          // ns_svc_targetport, "_error404", ...
	Ready   map[string]bool // ip:port of ready endpoints
	Drained map[string]bool // ip:port of not-ready endpoints (only served as weight 0 with drain-support)
	// service-upstream: the single server of the backend is the Service itself (cluster IP and service port)
	upstreamAddr string
	// Unjudged: the declarations leave the servers open (the users of the backend disagree on service-upstream)
	Unjudged bool
}

func refResolve(w *world.World, ns, svcName, portRef string) *refBackend {
	svc := w.Get(world.KService, ns+"/"+svcName)
	if svc == nil {
		return nil
	}
	var sp *world.SvcPort
	if portRef == "" {
		if len(svc.Ports) == 0 {
			return nil
		}
		sp = &svc.Ports[0]
	} else {
		sp = refSvcPort(svc, portRef)
	}
	if sp == nil {
		return nil
	}
	b := &refBackend{ID: ns + "_" + svcName + "_" + svcTarget(sp), Ready: map[string]bool{}, Drained: map[string]bool{}}
	if !svc.Headless {
		b.upstreamAddr = fmt.Sprintf("%s:%d", world.ClusterIP(svc), sp.Port)
	}
	if ep := w.Get(world.KEndpoints, ns+"/"+svcName); ep != nil {
		for _, ss := range ep.Subsets {
			for _, pp := range ss.Ports {
				if sp.Name != "" && sp.Name != pp.Name {
					continue
				}
				for _, a := range ss.Ready {
					if pod := w.Get(world.KPod, ns+"/"+a.Pod); a.Pod != "" && pod != nil && pod.Terminating && refDrainSupport(w) {
						// a pod being deleted whose address is still published: drained, like a not-ready one
						b.Drained[fmt.Sprintf("%s:%d", a.IP, pp.Port)] = true
						continue
					}
					b.Ready[fmt.Sprintf("%s:%d", a.IP, pp.Port)] = true
				}
				for _, a := range ss.NotReady {
					b.Drained[fmt.Sprintf("%s:%d", a.IP, pp.Port)] = true
				}
			}
		}
	}
	return b
}

// refDrainSupport: the global drain-support option.
func refDrainSupport(w *world.World) bool {
	cm := w.Get(world.KConfigMap, world.GlobalCM)
	return cm != nil && cm.Data["drain-support"] == "true"
}

type refRule struct {
	C04Rule
	Back *refBackend
	Ing  string
}

// refTable is the documented routing table of a cluster state.
type refTable struct {
	Hosts   map[string][]refRule // lower-case host ("" = default host) -> admitted rules
	TLS     map[string]bool      // hosts with a tls entry
	Default *refBackend          // --default-backend-service
	Amb     func(host, path string) bool
	// Strict: global strict-host is true - a request for a declared host that matches none of its paths is not tried
	// on the default host's paths; it goes to the fallback (the backend of the default host's "/", else the default backend)
	Strict bool
}

func refBuild(w *world.World, p ctlsim.Params) *refTable {
	t := &refTable{Hosts: map[string][]refRule{}, TLS: map[string]bool{}}
	if cm := w.Get(world.KConfigMap, world.GlobalCM); cm != nil && cm.Data["strict-host"] == "true" {
		t.Strict = true
	}
	// service-upstream is read when the backend is created, by whoever needs it first: judged only where every user of
	// the backend (ingresses, and --default-backend-service, which declares nothing) says the same
	votes := map[string][2]int{}
	vote := func(ing *world.Obj, b *refBackend) {
		v := votes[b.ID]
		if ing != nil && strings.ToLower(ing.Ann["service-upstream"]) == "true" {
			v[0]++
		} else {
			v[1]++
		}
		votes[b.ID] = v
	}
	defer func() {
		if t.Default != nil {
			vote(nil, t.Default)
		}
		for _, rules := range t.Hosts {
			for _, r := range rules {
				switch v := votes[r.Back.ID]; {
				case v[0] > 0 && v[1] > 0, v[0] > 0 && r.Back.upstreamAddr == "":
					r.Back.Unjudged = true
				case v[0] > 0:
					r.Back.Ready = map[string]bool{r.Back.upstreamAddr: true}
					r.Back.Drained = map[string]bool{}
				}
			}
		}
	}()
	declared := func(host string, r C04Rule) bool {
		for _, e := range t.Hosts[host] {
			if e.C04Rule == r {
				return true
			}
		}
		return false
	}
	for _, ing := range sortedIngresses(w, p) {
		if ing.Ann["tcp-service-port"] != "" {
			continue
		}
		if ing.DefBack != nil {
			r := C04Rule{Host: "", Path: "/", Type: "begin"}
			if declared("", r) {
				if b := refResolve(w, ing.NS, ing.DefBack.Svc, ing.DefBack.Port); b != nil {
					vote(ing, b)
				}
			}
			if !declared("", r) {
				if b := refResolve(w, ing.NS, ing.DefBack.Svc, ing.DefBack.Port); b != nil {
					vote(ing, b)
					t.Hosts[""] = append(t.Hosts[""], refRule{r, b, ing.FullName()})
				}
			}
		}
		for _, rule := range ing.Rules {
			host := strings.ToLower(rule.Host)
			if _, ok := t.Hosts[host]; !ok {
				t.Hosts[host] = nil // declared host, even if no rule is effective
			}
			for _, pth := range rule.Paths {
				path := pth.Path
				if path == "" {
					path = "/"
				}
				r := C04Rule{Host: host, Path: path, Type: pathTypeOf(ing, pth)}
				if declared(host, r) {
					// first-created ingress owns a duplicated path (the refused declaration may still be the one that
					// creates its backend: it has a say on service-upstream)
					if b := refResolve(w, ing.NS, pth.Svc, pth.Port); b != nil {
						vote(ing, b)
					}
					continue
				}
				b := refResolve(w, ing.NS, pth.Svc, pth.Port)
				if b == nil {
					continue // a rule whose service or port does not exist configures nothing
				}
				vote(ing, b)
				t.Hosts[host] = append(t.Hosts[host], refRule{r, b, ing.FullName()})
			}
		}
		for _, tls := range ing.TLS {
			for _, h := range tls.Hosts {
				t.TLS[strings.ToLower(h)] = true
				if _, ok := t.Hosts[strings.ToLower(h)]; !ok {
					t.Hosts[strings.ToLower(h)] = nil
				}
			}
		}
	}
	if p.DefaultBackend != "" {
		parts := strings.SplitN(p.DefaultBackend, "/", 2)
		if len(parts) == 2 {
			t.Default = refResolve(w, parts[0], parts[1], "")
		}
	}
	return t
}

func (t *refTable) winners(host, path string) []refRule {
	rules := t.Hosts[host]
	plain := make([]C04Rule, len(rules))
	for i, r := range rules {
		plain[i] = r.C04Rule
	}
	ws := refWinners(plain, host, path)
	var out []refRule
	for _, w := range ws {
		for _, r := range rules {
			if r.C04Rule == w {
				out = append(out, r)
			}
		}
	}
	return out
}

// route returns the set of backends the documentation allows for a request
// (more than one only where no rule is documented).
func (t *refTable) route(https bool, hostHdr, path string) []*refBackend {
	host := strings.ToLower(hostHdr)
	if i := strings.Index(host, ":"); i >= 0 {
		host = host[:i]
	}
	_, declared := t.Hosts[host]
	if host != "" && declared && (!https || t.TLS[host]) {
		if ws := t.winners(host, path); len(ws) > 0 {
			return backs(ws)
		}
		if t.Strict {
			var out []*refBackend
			for _, r := range t.Hosts[""] {
				if r.Path == "/" {
					out = append(out, r.Back)
				}
			}
			if len(out) == 0 && t.Default != nil {
				out = []*refBackend{t.Default}
			}
			// not judged where the documentation leaves it open: no fallback backend exists at all ("the default-backend
			// should be used", and there is none), or the host has no effective rule (it may not be configured at all)
			if len(out) == 0 || len(t.Hosts[host]) == 0 {
				out = append(out, t.lenient(path)...)
				out = append(out, &refBackend{ID: "_error404"})
			}
			return out
		}
	}
	return t.lenient(path)
}

// lenient is the lookup without strict-host: the default host's paths, then the default backend.
func (t *refTable) lenient(path string) []*refBackend {
	if ws := t.winners("", path); len(ws) > 0 {
		return backs(ws)
	}
	var out []*refBackend
	if t.Strict {
		// with strict-host the default host is a host like the others: it also gets the catch-all that points to the
		// backend of its own "/" (of any type). The documentation only says "the default-backend should be used", so
		// both answers are accepted.
		for _, r := range t.Hosts[""] {
			if r.Path == "/" {
				out = append(out, r.Back)
			}
		}
	}
	if t.Default != nil {
		return append(out, t.Default)
	}
	return append(out, &refBackend{ID: "_error404"})
}

func backs(ws []refRule) []*refBackend {
	var out []*refBackend
	for _, w := range ws {
		out = append(out, w.Back)
	}
	return out
}
