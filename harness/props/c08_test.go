package props

import (
	ctlconfig "github.com/jcmoraisjr/haproxy-ingress/pkg/controller/config"

	"encoding/json"
	"fmt"
	"strings"
	"testing"

	networking "k8s.io/api/networking/v1"
	"pgregory.net/rapid"

	"verifharness/ctlsim"
	"verifharness/world"
)

// C08 — only Ingresses classified for this controller are ever configured.

// TestC08Table enumerates the complete decision table
// {annotation absent/ours/foreign} x {ingressClassName absent/ours/foreign/dangling}
// x {watch-without-class} x {class-precedence} against the real cache facade
// (IsValidIngress, GetIngress, GetIngressList).
func TestC08Table(t *testing.T) {
	st := getStats("C08")
	f, rows := c08Table(st)
	st.mu.Lock()
	st.Extra["exhaustive_part"] = map[string]interface{}{"decision_table_rows": rows, "exhaustive": f == nil}
	st.mu.Unlock()
	if f != nil && !isKnown("C08", f.Signature) {
		path := saveReplay("C08", "C08", C08TableCase{Table: true}, f)
		line := fmt.Sprintf("VIOLATION property=C08 replay=%s", path)
		fmt.Println(line)
		st.mu.Lock()
		st.Violations = append(st.Violations, line+" :: "+f.Signature+" :: "+f.Msg)
		st.mu.Unlock()
		t.Errorf("%s\n%s", line, f.Msg)
	}
}

// C08TableCase is the replay form of a decision-table failure: the table is
// re-enumerated completely.
type C08TableCase struct {
	Table bool `json:"table"`
}

// c08Table enumerates the table; returns the first mismatch.
func c08Table(st *Stats) (*Failure, int) {
	anns := []*string{nil, sp(world.OurClass), sp("nginx"), sp("")}
	// "next", "sub" and "short" belong to controllers whose name extends, or is extended by, ours
	classes := []*string{nil, sp(world.OurClass), sp("other"), sp("dangling"), sp("next"), sp("sub"), sp("short")}
	rows := 0
	var first *Failure
	for _, wwc := range []bool{false, true} {
		for _, prec := range []bool{false, true} {
			p := ctlsim.Params{WatchWithoutClass: wwc, ClassPrecedence: prec}
			// the two switches as the command line gives them to the controller, with and without the deprecated
			// --ignore-ingress-without-class (documented as ignored since v0.12)
			for _, deprecated := range []bool{false, true} {
				cfg, err := cliConfig(func(opt *ctlconfig.Options) {
					opt.WatchIngressWithoutClass, opt.IngressClassPrecedence, opt.IgnoreIngressWithoutClass = wwc, prec, deprecated
				})
				if err != nil {
					panic(err)
				}
				rows++
				if (cfg.WatchIngressWithoutClass != wwc || cfg.IngressClassPrecedence != prec) && first == nil {
					first = failf("C08:command-line-switch-lost", "--watch-ingress-without-class=%v --ingress-class-precedence=%v --ignore-ingress-without-class=%v configure the controller with WatchIngressWithoutClass=%v IngressClassPrecedence=%v",
						wwc, prec, deprecated, cfg.WatchIngressWithoutClass, cfg.IngressClassPrecedence)
				}
			}
			var objs []*world.Obj
			objs = append(objs,
				&world.Obj{Kind: world.KIngressClass, Name: world.OurClass, Controller: world.ControllerName},
				&world.Obj{Kind: world.KIngressClass, Name: "other", Controller: "example.com/other"},
				&world.Obj{Kind: world.KIngressClass, Name: "next", Controller: world.ControllerName + "-next"},
				&world.Obj{Kind: world.KIngressClass, Name: "sub", Controller: world.ControllerName + "/internal"},
				&world.Obj{Kind: world.KIngressClass, Name: "short", Controller: strings.TrimSuffix(world.ControllerName, "/controller")})
			n := 0
			for _, a := range anns {
				for _, c := range classes {
					n++
					o := &world.Obj{Kind: world.KIngress, NS: "a", Name: fmt.Sprintf("i%02d", n), ClassName: c,
						Rules: []world.Rule{{Host: fmt.Sprintf("h%02d.local", n), Paths: []world.Path{{Path: "/", Type: "Prefix", Svc: "s1", Port: "80"}}}}}
					if a != nil {
						o.RawAnn = map[string]string{world.ClassAnn: *a}
					}
					objs = append(objs, o)
				}
			}
			s, err := ctlsim.New(p)
			if err != nil {
				panic(err)
			}
			ops := make([]world.Op, len(objs))
			for i, o := range objs {
				ops[i] = world.Op{Op: "create", Obj: o}
			}
			if err := s.Apply(ops); err != nil {
				panic(err)
			}
			list, err := s.Cache.GetIngressList()
			if err != nil {
				panic(err)
			}
			inList := map[string]bool{}
			for _, ing := range list {
				inList[ing.Namespace+"/"+ing.Name] = true
			}
			for _, o := range s.World.OfKind(world.KIngress) {
				rows++
				want := refSelected(s.World, p, o)
				got := s.Cache.IsValidIngress(o.ToK8s().(*networking.Ingress))
				_, gerr := s.Cache.GetIngress(o.FullName())
				row := fmt.Sprintf("annotation=%v ingressClassName=%v watch-without-class=%v class-precedence=%v", o.RawAnn[world.ClassAnn], deref(o.ClassName), wwc, prec)
				disagree := o.RawAnn != nil && o.ClassName != nil
				if st != nil {
					st.Case(row, disagree, "table-row")
				}
				var f *Failure
				switch {
				case got != want:
					f = failf("C08:table:IsValidIngress", "%s: documented rules select=%v, IsValidIngress=%v", row, want, got)
				case inList[o.FullName()] != want:
					f = failf("C08:table:GetIngressList", "%s: documented rules select=%v, listed=%v", row, want, inList[o.FullName()])
				case (gerr == nil) != want:
					f = failf("C08:table:GetIngress", "%s: documented rules select=%v, GetIngress error=%v", row, want, gerr)
				}
				if f != nil && first == nil {
					first = f
				}
			}
			s.Close()
		}
	}
	return first, rows
}

func deref(s *string) string {
	if s == nil {
		return "<absent>"
	}
	return *s
}

var c08Kinds = []string{world.KIngress, world.KIngress, world.KIngress, world.KIngressClass, world.KIngressClass, world.KService, world.KEndpoints}

func c08Profile() Profile {
	p := c03Profile()
	p.Classes = true
	// at most one ingress with spec.defaultBackend and no empty-host rule: the default host has a single possible
	// owner, which keeps the histories clear of the known finding of C01 (a default backend joining a configured default host)
	p.DefBackend = true
	p.SingleDefBack = true
	p.DefBackPct, p.DefBackOnlyPct = 30, 60
	p.EmptyHost = false
	p.GlobalCM = false
	p.Ann = []annChoice{{"balance-algorithm", []string{"roundrobin", "leastconn"}}, {"path-type", []string{"begin", "prefix"}}}
	p.MaxIng = 6
	return p
}

func genC08(t *rapid.T) HistCase {
	params := ctlsim.Params{
		WatchWithoutClass: rapid.Bool().Draw(t, "wwc"),
		ClassPrecedence:   rapid.Bool().Draw(t, "prec"),
		Shards:            rapid.SampledFrom([]int{0, 0, 2}).Draw(t, "shards"),
	}
	return genHistory(t, c08Profile(), params, c08Kinds, sizeScale(4, 8), 3)
}

func execC08(c HistCase) *Failure {
	st := getStats("C08")
	flips := 0
	var prevSel map[string]bool
	steps := 0
	f := histRun(c, func(s *ctlsim.Sim, batch int, infos []ctlsim.StepInfo) *Failure {
		steps += len(infos)
		if err := stepErrors(infos); err != nil {
			return failf("C08:update-error", "batch %d: %v", batch, err)
		}
		sel := map[string]bool{}
		for _, o := range s.World.OfKind(world.KIngress) {
			sel[o.FullName()] = refSelected(s.World, c.Params, o)
		}
		for k, v := range sel {
			if pv, ok := prevSel[k]; ok && pv != v {
				flips++
			}
		}
		prevSel = sel
		// both directions: what selected ingresses declare is routed, nothing of an unselected one is
		f, _ := routingOracle(s, s.World.List(), c.Params, "C08")
		if f != nil {
			f.Msg = fmt.Sprintf("after batch %d (watch-without-class=%v class-precedence=%v): %s\nhistory:\n%s", batch, c.Params.WatchWithoutClass, c.Params.ClassPrecedence, f.Msg, describeBatches(c))
			return f
		}
		return nil
	})
	labels := histLabels(c)
	if flips > 0 {
		labels = append(labels, "selection-flipped")
	}
	mixed := false
	for _, o := range c.Init {
		if o.Kind == world.KIngress && o.RawAnn[world.ClassAnn] != "" && o.ClassName != nil {
			mixed = true
		}
	}
	if mixed {
		labels = append(labels, "annotation-and-class-both-set")
	}
	st.Case(c, flips > 0, labels...)
	st.Count("reconcile_steps", steps)
	st.Count("selection_flips", flips)
	_ = strings.ToLower
	return f
}

func init() {
	replayers["C08"] = func(t *testing.T, raw json.RawMessage) *Failure {
		var tc C08TableCase
		if err := json.Unmarshal(raw, &tc); err == nil && tc.Table {
			f, _ := c08Table(nil)
			return f
		}
		return replayOne(t, "C08", raw, execC08)
	}
}

func TestC08(t *testing.T) {
	runProperty(t, "C08", genC08, execC08)
}
