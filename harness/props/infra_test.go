package props

import (
	"crypto/sha256"
	"encoding/hex"
	"encoding/json"
	"fmt"
	"os"
	"path/filepath"
	"sort"
	"strings"
	"sync"
	"testing"
	"time"

	"pgregory.net/rapid"
)

// Failure describes a violated property on one case.
type Failure struct {
	Signature string `json:"signature"` // class of the failing input (for known-findings matching)
	Msg       string `json:"msg"`
}

func failf(sig, format string, args ...interface{}) *Failure {
	return &Failure{Signature: sig, Msg: fmt.Sprintf(format, args...)}
}

// KnownFinding is an entry of /verif/known_findings.json.
type KnownFinding struct {
	Property  string `json:"property"`
	Signature string `json:"signature"`
	Status    string `json:"status"` // known | fixed
	Commit    string `json:"commit,omitempty"`
	What      string `json:"what"`
	Replay    string `json:"replay,omitempty"`
}

var (
	knownOnce sync.Once
	knownList []KnownFinding
)

func verifDir() string {
	if d := os.Getenv("VERIF_DIR"); d != "" {
		return d
	}
	return "/verif"
}

func knownFindings() []KnownFinding {
	knownOnce.Do(func() {
		data, err := os.ReadFile(filepath.Join(verifDir(), "known_findings.json"))
		if err != nil {
			return
		}
		var f struct {
			Findings []KnownFinding `json:"findings"`
		}
		if err := json.Unmarshal(data, &f); err == nil {
			knownList = f.Findings
		}
	})
	return knownList
}

// isKnown reports whether a signature is listed as a known (unfixed) finding.
func isKnown(prop, sig string) bool {
	for _, k := range knownFindings() {
		if k.Property == prop && k.Status == "known" && k.Signature == sig {
			return true
		}
	}
	return false
}

// knownSkip reports whether sig is a known finding and, if so, counts the hit: the
// caller then keeps checking the rest of the case instead of failing it.
func knownSkip(prop, sig string) bool {
	if !isKnown(prop, sig) {
		return false
	}
	st := getStats(prop)
	st.mu.Lock()
	st.KnownHits[sig]++
	st.mu.Unlock()
	return true
}

// Stats collects what a run covered; written as JSON for the driver to merge.
type Stats struct {
	mu            sync.Mutex
	Property      string                 `json:"property"`
	Evaluations   int                    `json:"evaluations"`
	Nontrivial    map[string]bool        `json:"-"`
	NontrivialN   int                    `json:"distinct_nontrivial"`
	Digests       []string               `json:"nontrivial_digests,omitempty"`
	Labels        map[string]int         `json:"labels"`
	Counters      map[string]int         `json:"counters"`
	Samples       []interface{}          `json:"samples"`
	KnownHits     map[string]int         `json:"known_hits"`
	Violations    []string               `json:"violations"`
	Inconclusive  int                    `json:"inconclusive"`
	Extra         map[string]interface{} `json:"extra,omitempty"`
	WallS         float64                `json:"wall_s"`
	start         time.Time
	sampleEvery   int
	maxSamples    int
	digestsCapped bool
}

var (
	statsMu  sync.Mutex
	allStats = map[string]*Stats{}
)

func getStats(prop string) *Stats {
	statsMu.Lock()
	defer statsMu.Unlock()
	if s, ok := allStats[prop]; ok {
		return s
	}
	s := &Stats{Property: prop, Nontrivial: map[string]bool{}, Labels: map[string]int{}, Counters: map[string]int{}, KnownHits: map[string]int{}, Extra: map[string]interface{}{}, start: time.Now(), maxSamples: 4}
	allStats[prop] = s
	return s
}

func digestOf(v interface{}) string {
	b, _ := json.Marshal(v)
	h := sha256.Sum256(b)
	return hex.EncodeToString(h[:8])
}

// Case records one executed case: labels, whether it is non-trivial, and may keep it as a sample.
func (s *Stats) Case(c interface{}, nontrivial bool, labels ...string) {
	s.mu.Lock()
	defer s.mu.Unlock()
	s.Evaluations++
	for _, l := range labels {
		s.Labels[l]++
	}
	if nontrivial {
		d := digestOf(c)
		if !s.Nontrivial[d] {
			s.Nontrivial[d] = true
			if len(s.Samples) < s.maxSamples {
				s.Samples = append(s.Samples, c)
			}
		}
	}
}

// Count adds to a named counter.
func (s *Stats) Count(name string, n int) {
	s.mu.Lock()
	defer s.mu.Unlock()
	s.Counters[name] += n
}

// Label increments a label.
func (s *Stats) Label(l string) {
	s.mu.Lock()
	defer s.mu.Unlock()
	s.Labels[l]++
}

func (s *Stats) flush() {
	s.mu.Lock()
	defer s.mu.Unlock()
	s.NontrivialN = len(s.Nontrivial)
	s.Digests = s.Digests[:0]
	for d := range s.Nontrivial {
		s.Digests = append(s.Digests, d)
	}
	sort.Strings(s.Digests)
	s.WallS = time.Since(s.start).Seconds()
}

func writeAllStats() {
	path := os.Getenv("VERIF_STATS")
	if path == "" {
		return
	}
	statsMu.Lock()
	defer statsMu.Unlock()
	out := map[string]*Stats{}
	for k, s := range allStats {
		s.flush()
		out[k] = s
	}
	b, _ := json.MarshalIndent(out, "", " ")
	_ = os.WriteFile(path, b, 0644)
}

func TestMain(m *testing.M) {
	code := m.Run()
	writeAllStats()
	os.Exit(code)
}

// ReplayFile is the on-disk form of a failing case.
type ReplayFile struct {
	Property  string          `json:"property"`
	Exec      string          `json:"exec,omitempty"` // replayer key when the property has several case types (eg C16P)
	Signature string          `json:"signature"`
	Msg       string          `json:"msg"`
	Case      json.RawMessage `json:"case"`
}

func replayDir(prop string) string {
	d := os.Getenv("VERIF_REPLAY_OUT")
	if d == "" {
		d = filepath.Join(verifDir(), "replays", prop)
	}
	_ = os.MkdirAll(d, 0755)
	return d
}

func saveReplay(prop, execKey string, c interface{}, f *Failure) string {
	raw, _ := json.MarshalIndent(c, "", " ")
	rf := ReplayFile{Property: prop, Signature: f.Signature, Msg: f.Msg, Case: raw}
	if execKey != prop {
		rf.Exec = execKey
	}
	b, _ := json.MarshalIndent(rf, "", " ")
	path := filepath.Join(replayDir(prop), "fail-"+digestOf(c)+".json")
	_ = os.WriteFile(path, b, 0644)
	return path
}

// tier returns quick or thorough.
func tier() string {
	if t := os.Getenv("VERIF_TIER"); t != "" {
		return t
	}
	return "quick"
}

func thorough() bool { return tier() == "thorough" }

// sizeScale lets generators grow in the thorough tier.
func sizeScale(quick, thor int) int {
	if thorough() {
		return thor
	}
	return quick
}

// runProperty drives gen+exec with rapid, handles known findings, saves the
// shrunk failing case and prints the VIOLATION line.
//
// exec returns nil when the property held on the case.
func runProperty[C any](t *testing.T, prop string, gen func(*rapid.T) C, exec func(C) *Failure) {
	runPropertyAs(t, prop, prop, gen, exec)
}

// runPropertyAs: execKey names the replayer of the case type (a property may have several).
func runPropertyAs[C any](t *testing.T, prop, execKey string, gen func(*rapid.T) C, exec func(C) *Failure) {
	st := getStats(prop)
	var lastCase *C
	var lastFail *Failure
	t.Run("rapid", func(t *testing.T) {
		rapid.Check(t, func(rt *rapid.T) {
			c := gen(rt)
			f := exec(c)
			if f == nil {
				return
			}
			if isKnown(prop, f.Signature) {
				st.mu.Lock()
				st.KnownHits[f.Signature]++
				st.mu.Unlock()
				return
			}
			cc := c
			lastCase, lastFail = &cc, f
			rt.Fatalf("property %s violated [%s]: %s", prop, f.Signature, f.Msg)
		})
	})
	if lastFail != nil {
		path := saveReplay(prop, execKey, *lastCase, lastFail)
		line := fmt.Sprintf("VIOLATION property=%s replay=%s", prop, path)
		st.mu.Lock()
		st.Violations = append(st.Violations, line+" :: "+lastFail.Signature+" :: "+firstLine(lastFail.Msg))
		st.mu.Unlock()
		fmt.Println(line)
		t.Errorf("%s\n%s", line, lastFail.Msg)
	}
}

func firstLine(s string) string {
	if i := strings.Index(s, "\n"); i >= 0 {
		return s[:i]
	}
	return s
}

// replayOne re-executes a saved case without rapid.
func replayOne[C any](t *testing.T, prop string, raw json.RawMessage, exec func(C) *Failure) *Failure {
	var c C
	if err := json.Unmarshal(raw, &c); err != nil {
		t.Fatalf("cannot decode case: %v", err)
	}
	return exec(c)
}

// replayers maps property id -> function that re-executes a raw case.
var replayers = map[string]func(t *testing.T, raw json.RawMessage) *Failure{}

func registerReplay[C any](prop string, exec func(C) *Failure) {
	replayers[prop] = func(t *testing.T, raw json.RawMessage) *Failure {
		return replayOne(t, prop, raw, exec)
	}
}

// TestReplay re-runs the case files named in VERIF_REPLAY (colon separated).
// A file that fails with a signature listed as known prints KNOWN-FINDING
// instead of VIOLATION.
// replaying: a saved case is being re-executed. The oracles that the quick tier applies to the last batch of a history
// only (C01) are then applied after every batch, as in the thorough tier, so that a case saved by the thorough tier
// fails again whatever the tier of the replay.
var replaying bool

func TestReplay(t *testing.T) {
	files := os.Getenv("VERIF_REPLAY")
	if files == "" {
		t.Skip("VERIF_REPLAY not set")
	}
	replaying = true
	defer func() { replaying = false }()
	for _, path := range strings.Split(files, ":") {
		data, err := os.ReadFile(path)
		if err != nil {
			t.Fatalf("%v", err)
		}
		var rf ReplayFile
		if err := json.Unmarshal(data, &rf); err != nil {
			t.Fatalf("%s: %v", path, err)
		}
		key := rf.Property
		if rf.Exec != "" {
			key = rf.Exec
		}
		rp, ok := replayers[key]
		if !ok {
			t.Fatalf("no replayer for %s", rf.Property)
		}
		st := getStats(rf.Property)
		f := rp(t, rf.Case)
		st.Count("replayed", 1)
		switch {
		case f == nil:
			fmt.Printf("REPLAY-OK property=%s file=%s\n", rf.Property, path)
		case isKnown(rf.Property, f.Signature):
			fmt.Printf("KNOWN-FINDING: property=%s %s (signature %s, replay %s)\n", rf.Property, knownWhat(rf.Property, f.Signature), f.Signature, path)
			st.mu.Lock()
			st.KnownHits[f.Signature]++
			st.mu.Unlock()
		default:
			line := fmt.Sprintf("VIOLATION property=%s replay=%s", rf.Property, path)
			fmt.Println(line)
			st.mu.Lock()
			st.Violations = append(st.Violations, line+" :: "+f.Signature+" :: "+firstLine(f.Msg))
			st.mu.Unlock()
			t.Errorf("%s\n%s", line, f.Msg)
		}
	}
}

func knownWhat(prop, sig string) string {
	for _, k := range knownFindings() {
		if k.Property == prop && k.Signature == sig {
			return k.What
		}
	}
	return ""
}
