package props

import (
	"fmt"
	"strings"
	"testing"

	"pgregory.net/rapid"

	"verifharness/ctlsim"
	"verifharness/hapcfg"
	"verifharness/world"
)

// C07 — every generated configuration is loadable.

var c07Kinds = []string{
	world.KIngress, world.KIngress, world.KIngress, world.KIngress,
	world.KService, world.KEndpoints, world.KSecret, world.KConfigMap,
}

// Known finding: with strict-host every host gets a "/" path that points to the
// fallback backend (the default host's "/" backend or --default-backend-service)
// without any tracking link; when that backend is removed later, the maps of the
// hosts that were not touched keep sending "/" to a backend that no longer exists.
const sigStrictHostStale = "C07:strict-host-fallback-backend-removed"

func strictHostOn(w *world.World) bool {
	cm := w.Get(world.KConfigMap, world.GlobalCM)
	return cm != nil && cm.Data["strict-host"] == "true"
}

func genC07(t *rapid.T) HistCase {
	p := richProfile()
	p.SparseOK = true
	kinds := c07Kinds
	if chanceT(t, "churn", 40) {
		// feature churn: 4..8 ingresses over 5 hosts that nearly all carry ONE feature whose derived objects
		// (auth-proxy ports and auth backends, userlists, tcp frontends, oauth backends) are shared, allocated,
		// released and re-used across syncs
		targets := []string{"http://10.0.0.9:8080/auth", "https://10.0.0.9/auth", "http://10.0.0.10/check", "http://10.0.0.11/a", "http://10.0.0.12/b",
			"http://10.0.0.13:81/c", "svc://s1:80", "svc://s2:8000", "svc://s3:9090", "svc://s1:8000", "svc://s2:80", "svc://s9:80"}
		switch rapid.SampledFrom([]string{"auth-url", "auth-url", "basic-auth", "oauth", "tcp"}).Draw(t, "churnfeature") {
		case "auth-url":
			p.Bundles = []annBundle{
				{Name: "auth-url-backend", Keys: []annChoice{{"auth-url", targets}, {"auth-external-placement", []string{"backend"}}}},
				{Name: "auth-url-default", Keys: []annChoice{{"auth-url", targets}}},
			}
		case "basic-auth":
			p.Bundles = []annBundle{{Name: "basic-auth", Keys: []annChoice{{"auth-type", []string{"basic"}}, {"auth-secret", []string{"pw", "pw", "pw", "pw2", "missing", "pw3"}}}}}
		case "oauth":
			p.Bundles = []annBundle{
				{Name: "oauth", Keys: []annChoice{{"oauth", []string{"oauth2_proxy"}}}, Path: "/oauth2"},
				{Name: "oauth-nopath", Keys: []annChoice{{"oauth", []string{"oauth2_proxy"}}}},
			}
		case "tcp":
			p.Bundles = []annBundle{{Name: "tcp", Keys: []annChoice{{"tcp-service-port", []string{"7000", "7001", "7002"}}}, Root: true}}
		}
		p.BundlePct = 85
		p.Hosts = []string{"h1.local", "h2.local", "h3.local", "h4.local", "h5.local"}
		p.MinIng, p.MaxIng = 4, 8
		// one namespace, own host and (mostly) own service per ingress: the ingresses are linked by the feature only
		p.NS = p.NS[:1]
		// (a third of the churn worlds share services, so that one backend carries paths with different auth targets)
		p.Sparse = chanceT(t, "churnsparse", 65)
		p.Svcs = []string{"s1", "s2", "s3", "s4", "s5", "s6"}
		p.EmptyHost, p.DefBackend, p.MultiTLS = false, false, false
		p.IngDeletePct = 30
		p.GlobalKeys = []annChoice{
			{"external-has-lua", []string{"true"}},
			{"auth-proxy", []string{"_front__auth:14415-14499", "_front__auth:14415-14499", "_front__auth:14415-14418", "_front__auth:14415-14416"}},
		}
		kinds = []string{world.KIngress, world.KIngress, world.KIngress, world.KIngress, world.KIngress, world.KEndpoints, world.KEndpoints, world.KService, world.KSecret}
	}
	p.Avoid = []avoidRule{
		{Sig: sigDefBackJoins, Pred: gainsDefaultBackend},
		// histories never run with strict-host on (fresh syncs with strict-host are still generated)
		{Sig: sigStrictHostStale, Pred: func(w *world.World, op world.Op) bool {
			if op.Obj.Kind == world.KConfigMap && op.Obj.FullName() == world.GlobalCM && op.Op != "delete" && op.Obj.Data["strict-host"] == "true" {
				return true
			}
			return strictHostOn(w)
		}},
	}
	params := ctlsim.Params{
		Shards:         rapid.SampledFrom([]int{0, 0, 2, 3}).Draw(t, "shards"),
		DefaultBackend: rapid.SampledFrom([]string{"", "", "a/s1", "a/s9"}).Draw(t, "defback"),
	}
	avoidParams = params
	g := newG(t, p)
	g.genWorld()
	g.genRichExtras()
	c := HistCase{Params: params}
	for _, o := range g.W.List() {
		c.Init = append(c.Init, o.Clone())
	}
	nb := g.intn("nbatches", 0, sizeScale(4, 8))
	for b := 0; b < nb; b++ {
		nops := g.intn("nops", 1, 3)
		var ops []world.Op
		for i := 0; i < nops; i++ {
			if op, ok := g.genOp(kinds); ok {
				ops = append(ops, world.Op{Op: op.Op, Obj: op.Obj.Clone()})
			}
		}
		if len(ops) > 0 {
			c.Batches = append(c.Batches, ops)
			c.Split = append(c.Split, -1)
		}
	}
	if len(g.Excluded) > 0 {
		c.Excluded = g.Excluded
	}
	return c
}

func execC07(c HistCase) *Failure {
	st := getStats("C07")
	maxKinds, maxBinds, danglingAuth := 0, 0, 0
	var total hapcfg.LintStats
	steps := 0
	f := histRun(c, func(s *ctlsim.Sim, batch int, infos []ctlsim.StepInfo) *Failure {
		steps += len(infos)
		if err := stepErrors(infos); err != nil {
			return failf("C07:update-error", "batch %d: update failed: %v", batch, err)
		}
		cfg, _ := hapcfg.LoadDir(s.CfgDir())
		issues, ls := cfg.Lint()
		if ls.Kinds() > maxKinds {
			maxKinds = ls.Kinds()
		}
		total.StaticBackendRefs += ls.StaticBackendRefs
		total.MapBackendRefs += ls.MapBackendRefs
		total.UserlistRefs += ls.UserlistRefs
		total.PathIDRefs += ls.PathIDRefs
		total.AuthProxyBinds += ls.AuthProxyBinds
		if ls.AuthProxyBinds > maxBinds {
			maxBinds = ls.AuthProxyBinds
		}
		total.TCPFrontends += ls.TCPFrontends
		total.LuaAuthRefs += ls.LuaAuthRefs
		total.FileRefs += ls.FileRefs
		// `http-request lua.auth-intercept <backend> ...` takes the name as a string that the Lua action resolves per
		// request: HAProxy loads the configuration even if the name dangles (the request is then denied), so it is
		// not one of the references of the statement. It is counted, and belongs to the known finding of C01 about the
		// namespace-wide oauth lookup.
		kept := issues[:0]
		for _, is := range issues {
			if is.Kind == "missing-auth-backend" {
				danglingAuth++
				continue
			}
			kept = append(kept, is)
		}
		issues = kept
		if len(issues) > 0 {
			var msgs []string
			for _, is := range issues {
				msgs = append(msgs, is.Kind+": "+is.Msg)
			}
			if batch >= 0 && issues[0].Kind == "missing-backend-in-map" && histStrictHost(c) {
				return failf(sigStrictHostStale, "after batch %d: %s\nhistory:\n%s", batch, strings.Join(msgs, "\n  "), describeBatches(c))
			}
			return failf("C07:"+issues[0].Kind, "after batch %d the written configuration has %d reference problem(s):\n  %s\nhistory:\n%s", batch, len(issues), strings.Join(msgs, "\n  "), describeBatches(c))
		}
		return nil
	})
	labels := []string{fmt.Sprintf("reference-kinds=%d", maxKinds)}
	if maxBinds >= 4 {
		labels = append(labels, "auth-proxy-binds>=4")
	} else if maxBinds >= 2 {
		labels = append(labels, "auth-proxy-binds>=2")
	}
	st.Case(c, maxKinds >= 4, labels...)
	st.Count("reconcile_steps", steps)
	st.Count("refs_static_backend", total.StaticBackendRefs)
	st.Count("refs_map_backend", total.MapBackendRefs)
	st.Count("refs_userlist", total.UserlistRefs)
	st.Count("refs_pathid", total.PathIDRefs)
	st.Count("refs_authproxy_binds", total.AuthProxyBinds)
	st.Count("refs_tcp_frontends", total.TCPFrontends)
	st.Count("refs_lua_auth", total.LuaAuthRefs)
	st.Count("lua_auth_backend_names_dangling_not_a_load_error", danglingAuth)
	st.Count("refs_files", total.FileRefs)
	return f
}

// histStrictHost: strict-host was on at some point of the history.
func histStrictHost(c HistCase) bool {
	w := world.FromList(c.Init)
	if strictHostOn(w) {
		return true
	}
	for _, b := range c.Batches {
		for _, op := range b {
			_, _, _ = w.Apply(op)
			if strictHostOn(w) {
				return true
			}
		}
	}
	return false
}

func init() { registerReplay("C07", execC07) }

func TestC07(t *testing.T) {
	runProperty(t, "C07", genC07, execC07)
}
