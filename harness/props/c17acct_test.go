package props

import (
	"crypto"
	"crypto/ecdsa"
	"crypto/elliptic"
	"crypto/rand"
	"fmt"
	"net/http"
	"net/http/httptest"
	"strings"
	"sync"
	"testing"
	"time"

	"pgregory.net/rapid"

	"github.com/jcmoraisjr/haproxy-ingress/pkg/acme"
	types_helper "github.com/jcmoraisjr/haproxy-ingress/pkg/types/helper_test"

	"verifharness/ctlsim"
	"verifharness/world"
)

// C17, part 3: a certificate that is needed can only be requested while the acme account is loaded. The instance
// presents the configured account to the signer on every synchronization and every check (acmeEnsureConfig) and
// relies on the signer to (re)load it: whenever the presented account can be loaded, it is, whatever earlier
// attempts, earlier accounts or earlier removals did.

// C17AcctStep is one call of AcmeAccount.
type C17AcctStep struct {
	Cfg         int  `json:"cfg"`         // 0: no account configured, 1, 2: two distinct accounts
	KeyFault    bool `json:"keyFault"`    // reading the account key fails during this call
	ServerFault bool `json:"serverFault"` // the acme server answers 500 to the account request during this call
}

// C17AcctCase ...
type C17AcctCase struct {
	Steps []C17AcctStep `json:"steps"`
}

func genC17Acct(t *rapid.T) C17AcctCase {
	var c C17AcctCase
	n := rapid.IntRange(2, 8).Draw(t, "nsteps")
	for i := 0; i < n; i++ {
		st := C17AcctStep{Cfg: rapid.SampledFrom([]int{1, 1, 1, 2, 0}).Draw(t, "cfg")}
		if chanceT(t, "fault", 35) {
			if rapid.Bool().Draw(t, "faultkind") {
				st.KeyFault = true
			} else {
				st.ServerFault = true
			}
		}
		c.Steps = append(c.Steps, st)
	}
	return c
}

type c17AcctCache struct {
	key      crypto.Signer
	failNext bool
	failed   int
}

func (c *c17AcctCache) GetKey() (crypto.Signer, error) {
	if c.failNext {
		c.failNext = false
		c.failed++
		return nil, fmt.Errorf("transient failure reading the account key")
	}
	return c.key, nil
}
func (c *c17AcctCache) SetToken(domain string, uri, token string) error { return nil }
func (c *c17AcctCache) GetToken(domain, uri string) string              { return "" }
func (c *c17AcctCache) GetTLSSecretContent(secretName string) (*acme.TLSSecret, error) {
	return nil, fmt.Errorf("secret not found: %s", secretName)
}
func (c *c17AcctCache) SetTLSSecretContent(secretName string, pemCrt, pemKey []byte) error {
	return nil
}

// c17AcmeServer is the minimum of an ACME v2 server needed to register or retrieve an account; orders are
// counted and refused.
type c17AcmeServer struct {
	mu        sync.Mutex
	failNext  bool
	failed    int
	newOrders int
	srv       *httptest.Server
}

func newC17AcmeServer() *c17AcmeServer {
	d := &c17AcmeServer{}
	mux := http.NewServeMux()
	nonce := func(w http.ResponseWriter) { w.Header().Set("Replay-Nonce", "bm9uY2U") }
	mux.HandleFunc("/directory", func(w http.ResponseWriter, r *http.Request) {
		u := d.srv.URL
		w.Header().Set("Content-Type", "application/json")
		fmt.Fprintf(w, `{"newNonce":"%s/new-nonce","newAccount":"%s/new-acct","newOrder":"%s/new-order"}`, u, u, u)
	})
	mux.HandleFunc("/new-nonce", func(w http.ResponseWriter, r *http.Request) { nonce(w) })
	acct := func(w http.ResponseWriter, r *http.Request) {
		nonce(w)
		d.mu.Lock()
		fail := d.failNext
		if fail {
			d.failNext = false
			d.failed++
		}
		d.mu.Unlock()
		if fail {
			w.Header().Set("Content-Type", "application/problem+json")
			w.WriteHeader(http.StatusInternalServerError)
			fmt.Fprint(w, `{"type":"urn:ietf:params:acme:error:serverInternal","detail":"transient failure"}`)
			return
		}
		w.Header().Set("Location", d.srv.URL+"/acct/1")
		w.Header().Set("Content-Type", "application/json")
		fmt.Fprint(w, `{"status":"valid","contact":["mailto:admin@example.local"]}`)
	}
	mux.HandleFunc("/new-acct", acct)
	mux.HandleFunc("/acct/1", acct)
	mux.HandleFunc("/new-order", func(w http.ResponseWriter, r *http.Request) {
		d.mu.Lock()
		d.newOrders++
		d.mu.Unlock()
		nonce(w)
		w.Header().Set("Content-Type", "application/problem+json")
		w.WriteHeader(http.StatusBadRequest)
		fmt.Fprint(w, `{"type":"urn:ietf:params:acme:error:rejectedIdentifier","detail":"this server does not issue"}`)
	})
	d.srv = httptest.NewServer(mux)
	return d
}

func execC17Acct(c C17AcctCase) *Failure {
	st := getStats("C17")
	server := newC17AcmeServer()
	defer server.srv.Close()
	key, err := ecdsa.GenerateKey(elliptic.P256(), rand.Reader)
	if err != nil {
		panic(err)
	}
	cache := &c17AcctCache{key: key}
	logger := &ctlsim.RecLogger{}
	signer := acme.NewSigner(logger, cache, types_helper.NewMetricsMock())
	signer.AcmeConfig(30 * 24 * 3600 * 1e9)
	emails := []string{"", "admin@example.local", "other@example.local"}
	faultsHit, reloadsAfterFault := 0, 0
	lastFailed := false
	history := ""
	for i, s := range c.Steps {
		cache.failNext = s.KeyFault
		server.mu.Lock()
		server.failNext = s.ServerFault
		f0 := server.failed
		server.mu.Unlock()
		k0 := cache.failed
		if s.Cfg == 0 {
			signer.AcmeAccount("", "", false)
		} else {
			signer.AcmeAccount(server.srv.URL, emails[s.Cfg], true)
		}
		server.mu.Lock()
		hit := cache.failed > k0 || server.failed > f0
		server.failNext = false
		server.mu.Unlock()
		cache.failNext = false
		history += fmt.Sprintf("\n  call %d: account %d, fault hit: %v -> HasAccount %v", i, s.Cfg, hit, signer.HasAccount())
		switch {
		case s.Cfg == 0:
			if signer.HasAccount() {
				return failf("C17:account-kept-after-removal", "no account is configured but the signer still has one%s", history)
			}
		case hit:
			faultsHit++
			if signer.HasAccount() {
				return failf("C17:account-loaded-despite-failure", "loading the account failed but the signer reports one%s", history)
			}
		default:
			if lastFailed {
				reloadsAfterFault++
			}
			if !signer.HasAccount() {
				return failf("C17:account-not-loaded", "account %d was presented and nothing failed during the call, but the signer has no account: no certificate can be requested until the account configuration changes or the controller restarts%s", s.Cfg, history)
			}
			// a missing certificate is requested
			server.mu.Lock()
			o0 := server.newOrders
			server.mu.Unlock()
			err := signer.Notify("a/secret1,,d1.local")
			server.mu.Lock()
			o1 := server.newOrders
			server.mu.Unlock()
			if o1 != o0+1 {
				return failf("C17:certificate-not-requested", "secret a/secret1 is missing and the account is loaded, but the acme server has seen %d order(s) (Notify: %v)%s", o1-o0, err, history)
			}
		}
		lastFailed = s.Cfg != 0 && hit
	}
	labels := []string{"account"}
	if faultsHit > 0 {
		labels = append(labels, "account-load-fault")
	}
	if reloadsAfterFault > 0 {
		labels = append(labels, "account-presented-again-after-a-failed-load")
	}
	st.Case(c, reloadsAfterFault > 0, labels...)
	_ = strings.Join
	return nil
}

func init() { registerReplay("C17A", execC17Acct) }

func TestC17Account(t *testing.T) {
	runPropertyAs(t, "C17", "C17A", genC17Acct, execC17Acct)
}

// C17, part 4: the signer's decision when the secret is read through the controller's own cache facade
// (GetTLSSecretContent: the real PEM parsing), for secrets that hold the leaf alone or the leaf followed by its issuer.

// C17CacheCase ...
type C17CacheCase struct {
	Cert       int      `json:"cert"`  // index into the certificate pool (world.PoolSpec)
	Chain      bool     `json:"chain"` // tls.crt holds the leaf followed by the certificate of its issuer
	Domains    []string `json:"domains"`
	WindowDays int      `json:"windowDays"`
}

func genC17Cache(t *rapid.T) C17CacheCase {
	c := C17CacheCase{
		Cert:       rapid.IntRange(0, world.PoolSize()-1).Draw(t, "cert"),
		Chain:      rapid.Bool().Draw(t, "chain"),
		WindowDays: rapid.SampledFrom([]int{0, 1, 30, 60}).Draw(t, "window"),
	}
	spec := world.PoolSpec[c.Cert]
	if chanceT(t, "declared-from-sans", 70) {
		n := rapid.IntRange(1, len(spec.SANs)).Draw(t, "ndomains")
		for _, d := range spec.SANs[:n] {
			c.Domains = append(c.Domains, strings.Replace(d, "*", "x", 1))
		}
	} else {
		c.Domains = []string{rapid.SampledFrom([]string{"h1.local", "h2.local", "h3.local", "x.w.local", "zz.local"}).Draw(t, "domain")}
	}
	return c
}

func execC17Cache(c C17CacheCase) *Failure {
	st := getStats("C17")
	kind := "tls"
	if c.Chain {
		kind = "tlschain"
	}
	s, steps, err := freshSim(ctlsim.Params{}, []*world.Obj{
		{Kind: world.KNamespace, Name: "a"},
		{Kind: world.KSecret, NS: "a", Name: "t1", SecretKind: kind, Cert: c.Cert},
	})
	if err != nil {
		panic(err)
	}
	defer s.Close()
	if e := stepErrors(steps); e != nil {
		return failf("C17:update-error", "%v", e)
	}
	window := time.Duration(c.WindowDays) * 24 * time.Hour
	client := &c17Client{mode: "error"}
	signer := acme.VerifNewSigner(&ctlsim.RecLogger{}, s.Cache, types_helper.NewMetricsMock(), client, window)
	_ = signer.Notify("a/t1,," + strings.Join(c.Domains, ","))
	spec := world.PoolSpec[c.Cert]
	covering := true
	for _, d := range c.Domains {
		if !refCovers(spec.SANs, d) {
			covering = false
		}
	}
	needed := spec.NotAfter < window || !covering
	st.Case(c, c.Chain && !needed, "signer-through-cache", fmt.Sprintf("chain=%v", c.Chain), fmt.Sprintf("signer-needed=%v", needed))
	if needed && client.calls != 1 {
		return failf("C17:certificate-not-requested", "secret a/t1 (leaf %v valid for %v more, chain=%v) for domains %v with a window of %d days needs a certificate, but Sign was called %d time(s)", spec.SANs, spec.NotAfter, c.Chain, c.Domains, c.WindowDays, client.calls)
	}
	if !needed && client.calls != 0 {
		return failf("C17:valid-certificate-re-requested", "the certificate of secret a/t1 (leaf %v valid for %v more, chain=%v) covers %v and does not expire within %d days, yet it was re-requested", spec.SANs, spec.NotAfter, c.Chain, c.Domains, c.WindowDays)
	}
	return nil
}

func init() { registerReplay("C17C", execC17Cache) }

func TestC17Cache(t *testing.T) {
	runPropertyAs(t, "C17", "C17C", genC17Cache, execC17Cache)
}
