package props

import (
	"fmt"
	"os"
	"strings"
	"testing"

	"pgregory.net/rapid"

	"verifharness/ctlsim"
	"verifharness/world"
)

// C01 — incremental resync converges to what a fresh controller computes.

var c01Kinds = []string{
	world.KIngress, world.KIngress, world.KIngress, world.KIngress, world.KIngress, world.KIngress,
	world.KService, world.KService, world.KEndpoints, world.KEndpoints, world.KEndpoints, world.KSecret, world.KSecret,
	world.KIngressClass, world.KConfigMap, world.KPod,
}

func c01Profile() Profile {
	p := defaultProfile()
	p.MissingRefs = true
	p.Pods = true
	p.NoTCPCM = false
	p.GlobalCM = true
	p.AuthSecret = true
	p.GlobalKeys = []annChoice{{"drain-support", []string{"true", "false"}}, {"timeout-client", []string{"30s", "40s"}}}
	p.Ann = append(p.Ann, annChoice{"auth-type", []string{"basic"}}, annChoice{"auth-secret", []string{"pw", "missing"}},
		annChoice{"backend-server-naming", []string{"ip", "pod"}}, annChoice{"affinity", []string{"cookie"}},
		annChoice{"server-alias", []string{"alias.local"}}, annChoice{"path-type", []string{"begin", "prefix", "exact"}},
		annChoice{"secure-backends", []string{"true"}})
	if !isKnownSig(sigRedirectFromShared) {
		p.Ann = append(p.Ann, annChoice{"redirect-from", []string{"old.local"}})
	}
	p.Classes = os.Getenv("C01_NOCLASS") == ""
	authURLs := []string{"http://10.0.0.9:8080/auth", "http://10.0.0.10/check", "svc://s2:8000", "svc://s1:80", "svc://s3:9090", "svc://s9:80"}
	p.Bundles = []annBundle{
		{Name: "basic-auth", Keys: []annChoice{{"auth-type", []string{"basic"}}, {"auth-secret", []string{"pw", "pw", "missing"}}}},
		{Name: "auth-url", Keys: []annChoice{{"auth-url", authURLs}}},
		{Name: "bluegreen", Keys: []annChoice{{"blue-green-deploy", []string{"group=blue=1,group=green=3"}}}},
		{Name: "server-id", Keys: []annChoice{{"assign-backend-server-id", []string{"true"}}, {"backend-server-naming", []string{"pod", "ip"}}}},
		{Name: "tcp", Keys: []annChoice{{"tcp-service-port", []string{"7000", "7001"}}}, Root: true},
	}
	p.BundlePct = 20
	p.RotateTogether = true
	p.SparseOK = true
	p.Avoid = []avoidRule{{Sig: sigDefBackJoins, Pred: gainsDefaultBackend}}
	return p
}

// Known finding: the same redirect-from source claimed by two hosts is given to the host that is
// configured first; a fresh sync processes hosts in name order, a partial sync only re-creates
// the changed hosts, so the surviving claim depends on the history. Excluded by construction
// (redirect-from is not generated while the finding is listed).
const sigRedirectFromShared = "C01:redirect-from-claimed-by-two-hosts"

func redirectFromShared(objs []*world.Obj) bool {
	hostsOf := map[string]map[string]bool{}
	for _, o := range objs {
		if o.Kind != world.KIngress || o.Ann["redirect-from"] == "" {
			continue
		}
		v := o.Ann["redirect-from"]
		if hostsOf[v] == nil {
			hostsOf[v] = map[string]bool{}
		}
		for _, r := range o.Rules {
			hostsOf[v][r.Host] = true
		}
	}
	for _, hs := range hostsOf {
		if len(hs) > 1 {
			return true
		}
	}
	return false
}

// Known finding: an ingress that starts to declare spec.defaultBackend while the
// default host is already configured changes the committed default host in place
// (trackAddedIngress does not pre-track the default host).
const sigDefBackJoins = "C01:default-backend-joins-configured-default-host"

func gainsDefaultBackend(w *world.World, op world.Op) bool {
	if op.Obj.Kind != world.KIngress || op.Op == "delete" || op.Obj.DefBack == nil {
		return false
	}
	if op.Obj.Ann["tcp-service-port"] != "" {
		return false
	}
	if op.Op == "update" {
		if old := w.Objs[op.Obj.Key()]; old != nil && old.DefBack != nil {
			return false
		}
	}
	return true
}

// histGainsDefaultBackend evaluates the same predicate on a recorded history.
func histGainsDefaultBackend(c HistCase) bool {
	w := world.FromList(c.Init)
	for _, b := range c.Batches {
		for _, op := range b {
			if gainsDefaultBackend(w, op) {
				return true
			}
			_, _, _ = w.Apply(op)
		}
	}
	return false
}

func genParams(t *rapid.T) ctlsim.Params {
	return ctlsim.Params{
		Shards:            rapid.SampledFrom([]int{0, 0, 1, 3}).Draw(t, "shards"),
		WatchWithoutClass: rapid.IntRange(0, 3).Draw(t, "wwc") == 0,
		DefaultBackend:    rapid.SampledFrom([]string{"", "", "a/s1", "b/s2"}).Draw(t, "defback"),
		DefaultCrt:        rapid.SampledFrom([]string{"", "", "a/t1"}).Draw(t, "defcrt"),
		SortBy:            rapid.SampledFrom([]string{"", "", "name", "ip"}).Draw(t, "sortby"),
	}
}

func genC01(t *rapid.T) HistCase {
	return genHistoryX(t, c01Profile(), genParams(t), c01Kinds, sizeScale(5, 10), sizeScale(4, 5), true)
}

// Known finding: an ingress with tcp-service-port and a tls block whose own backend declarations
// are all refused or unusable still adds its TLS to the port when another ingress has already
// configured that port at the time it is parsed, and is skipped ("backend was not configured")
// when it is parsed first. A fresh sync parses in creation order, a partial sync parses the
// changed ingress last, so the port ends up with or without TLS depending on the history.
// TestSyncTCPServicePort pins that TLS may come from an ingress without backend.
const sigTCPTLSOrphan = ":tcp-tls-declared-without-backend"

// tcpTLSWithoutBackend lists the tcp ports for which some ingress declares TLS while the fresh
// sync reported that (one of) its backend declarations on that port was skipped.
func tcpTLSWithoutBackend(objs []*world.Obj, fresh []ctlsim.StepInfo) []string {
	var ports []string
	for _, o := range objs {
		port := o.Ann["tcp-service-port"]
		if o.Kind != world.KIngress || port == "" || len(o.TLS) == 0 {
			continue
		}
		name := "on Ingress '" + o.NS + "/" + o.Name + "'"
		name2 := "of Ingress '" + o.NS + "/" + o.Name + "'"
		for _, st := range fresh {
			for _, l := range st.Logs {
				if strings.Contains(l, "skipping") && (strings.Contains(l, name) || strings.Contains(l, name2)) && !strings.Contains(l, "skipping TLS") {
					ports = append(ports, port)
				}
			}
		}
	}
	return dedup(ports)
}

// compareWithFresh is the oracle of C01 (also used by C12): NF(long-lived) == NF(fresh).
func compareWithFresh(s *ctlsim.Sim, sigPrefix string) (*Failure, int) {
	objs := s.World.List()
	reqs, snis := requestsFor(objs)
	reqs, _ = dropAmbiguous(objs, reqs)
	nfA, _ := simNF(s, reqs, snis)
	fresh, steps, err := freshSim(s.P, objs)
	if err != nil {
		panic(err)
	}
	defer fresh.Close()
	if e := stepErrors(steps); e != nil {
		return failf(sigPrefix+":fresh-sync-error", "fresh controller failed to sync: %v", e), 0
	}
	nfB, _ := simNF(fresh, reqs, snis)
	diff := nfA.Diff(nfB)
	if len(diff) == 0 {
		return nil, nfA.Incon
	}
	kind := strings.SplitN(diff[0], " ", 2)[0]
	if ports := tcpTLSWithoutBackend(objs, steps); len(ports) > 0 {
		// known finding: are all the differences about the frontends of those tcp ports?
		only := true
		for _, d := range diff {
			hit := false
			for _, p := range ports {
				if strings.Contains(firstLine(d), "_front_tcp_"+p) || strings.Contains(firstLine(d), "crtlist_tcp_"+p) {
					hit = true
				}
			}
			only = only && hit
		}
		if only {
			return failf(sigPrefix+sigTCPTLSOrphan, "%d difference(s), all on the tcp port(s) %v whose TLS is declared by an ingress that configures no backend there; first:\n%s", len(diff), ports, diff[0]), nfA.Incon
		}
	}
	msg := fmt.Sprintf("%d difference(s) between the incrementally maintained configuration (A) and a fresh controller on the same cluster state (B); first:\n%s", len(diff), diff[0])
	if len(diff) > 1 {
		msg += "\n...\n" + diff[len(diff)-1]
	}
	return failf(sigPrefix+":diverged:"+strings.TrimSuffix(kind, ":"), "%s", msg), nfA.Incon
}

func execC01(c HistCase) *Failure {
	st := getStats("C01")
	partialRecreate := false
	steps := 0
	incon := 0
	f := histRun(c, func(s *ctlsim.Sim, batch int, infos []ctlsim.StepInfo) *Failure {
		steps += len(infos)
		if err := stepErrors(infos); err != nil {
			return failf("C01:update-error", "batch %d: HAProxyUpdate failed without any injected fault: %v", batch, err)
		}
		if batch >= 0 {
			for _, in := range infos {
				for _, l := range in.Logs {
					if strings.Contains(l, "syncing ") && !strings.Contains(l, "syncing 0 host(s) and 0 backend(s)") {
						partialRecreate = true
					}
				}
			}
		}
		if batch == len(c.Batches)-1 || (thorough() && batch >= 0) {
			f, n := compareWithFresh(s, "C01")
			incon += n
			if f != nil {
				f.Msg = fmt.Sprintf("after batch %d: %s\nhistory:\n%s", batch, f.Msg, describeBatches(c))
				if histGainsDefaultBackend(c) {
					f.Signature = sigDefBackJoins
				} else if redirectFromShared(s.World.List()) && strings.Contains(f.Msg, "redirect prefix") {
					f.Signature = sigRedirectFromShared
				}
				return f
			}
		}
		return nil
	})
	labels := histLabels(c)
	shared := false
	for _, l := range labels {
		if strings.HasPrefix(l, "shared-") {
			shared = true
		}
	}
	if partialRecreate {
		labels = append(labels, "partial-recreate")
	}
	st.Case(c, partialRecreate && shared, labels...)
	for sig, n := range c.Excluded {
		st.Count("excluded_ops:"+sig, n)
	}
	st.Count("reconcile_steps", steps)
	st.Count("inconclusive_routes", incon)
	return f
}

func init() { registerReplay("C01", execC01) }

func TestC01(t *testing.T) {
	runProperty(t, "C01", genC01, execC01)
}
