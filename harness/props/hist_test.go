package props

import (
	"fmt"
	"os"
	"path/filepath"
	"strings"

	"verifharness/ctlsim"
	"verifharness/hapcfg"
	"verifharness/world"
)

// certID identifies a certificate file by the fingerprint of its leaf; the
// auto-generated fake certificate (different in every controller process) is
// reduced to its role.
func certID(file string) string {
	base := filepath.Base(file)
	if base == "_fake-default.pem" {
		return "fake-default"
	}
	data, err := os.ReadFile(file)
	if err != nil {
		return base + ":unreadable"
	}
	return base + ":" + world.FingerprintOfPEM(data)
}

// simNF computes the behavioural normal form of what a sim has written.
func simNF(s *ctlsim.Sim, reqs []hapcfg.Request, snis []string) (*hapcfg.NF, *hapcfg.Config) {
	cfg, _ := hapcfg.LoadDir(s.CfgDir())
	nf := cfg.BuildNF(&hapcfg.NFOptions{Dir: s.Dir, Requests: reqs, SNIs: snis, CertID: certID})
	return nf, cfg
}

// freshSim starts a new controller on the given cluster state and lets it sync.
func freshSim(p ctlsim.Params, objs []*world.Obj) (*ctlsim.Sim, []ctlsim.StepInfo, error) {
	s, err := ctlsim.New(p)
	if err != nil {
		return nil, nil, err
	}
	steps, err := s.Bootstrap(objs)
	if err != nil {
		s.Close()
		return nil, nil, err
	}
	return s, steps, nil
}

// histRun executes a history; after is called after every batch (batch index,
// the steps of that batch). Returning a failure stops the run.
func histRun(c HistCase, after func(s *ctlsim.Sim, batch int, steps []ctlsim.StepInfo) *Failure) (f *Failure) {
	return histRun2(c, nil, after)
}

// histRun2 additionally calls before(s, batch) ahead of every batch (fault plans).
func histRun2(c HistCase, before func(s *ctlsim.Sim, batch int), after func(s *ctlsim.Sim, batch int, steps []ctlsim.StepInfo) *Failure) (f *Failure) {
	s, err := ctlsim.New(c.Params)
	if err != nil {
		panic(err)
	}
	defer s.Close()
	steps, err := s.Bootstrap(c.Init)
	if err != nil {
		panic(fmt.Sprintf("bootstrap: %v", err))
	}
	if f := after(s, -1, steps); f != nil {
		return f
	}
	for i, ops := range c.Batches {
		split := -1
		if i < len(c.Split) {
			split = c.Split[i]
		}
		var steps []ctlsim.StepInfo
		if before != nil {
			before(s, i)
		}
		if split < 0 {
			if err := s.Apply(ops); err != nil {
				panic(fmt.Sprintf("batch %d: %v", i, err))
			}
			steps = s.Reconcile()
		} else {
			steps, err = s.ApplySplit(ops, split)
			if err != nil {
				panic(fmt.Sprintf("batch %d: %v", i, err))
			}
		}
		if f := after(s, i, steps); f != nil {
			return f
		}
	}
	return nil
}

func stepErrors(steps []ctlsim.StepInfo) error {
	for _, st := range steps {
		if st.Err != nil {
			return st.Err
		}
	}
	return nil
}

func logsContain(steps []ctlsim.StepInfo, sub string) bool {
	for _, st := range steps {
		for _, l := range st.Logs {
			if strings.Contains(l, sub) {
				return true
			}
		}
	}
	return false
}

func describeBatches(c HistCase) string {
	var sb strings.Builder
	for i, b := range c.Batches {
		fmt.Fprintf(&sb, "batch %d:", i)
		for _, op := range b {
			fmt.Fprintf(&sb, " [%s]", op.String())
		}
		sb.WriteString("\n")
	}
	return sb.String()
}

// histLabels classifies a history for the generator statistics.
func histLabels(c HistCase) []string {
	var out []string
	if c.Params.Shards > 0 {
		out = append(out, fmt.Sprintf("shards=%d", c.Params.Shards))
	} else {
		out = append(out, "shards=0")
	}
	w := world.FromList(c.Init)
	sharedHost, sharedBack := false, false
	hostUse := map[string]int{}
	backUse := map[string]int{}
	ulUse, authTargets := map[string]int{}, map[string]bool{}
	secUse := map[string]int{}
	for _, o := range w.OfKind(world.KIngress) {
		hs := map[string]bool{}
		bs := map[string]bool{}
		for _, r := range o.Rules {
			hs[r.Host] = true
			for _, p := range r.Paths {
				bs[o.NS+"/"+p.Svc] = true
			}
		}
		for h := range hs {
			hostUse[h]++
		}
		for b := range bs {
			backUse[b]++
		}
		for _, t := range o.TLS {
			secUse[o.NS+"/"+t.Secret]++
		}
		if o.Ann["auth-type"] == "basic" && o.Ann["auth-secret"] != "" {
			ulUse[o.NS+"/"+o.Ann["auth-secret"]]++
		}
		if u := o.Ann["auth-url"]; u != "" {
			if strings.HasPrefix(u, "svc://") {
				u = o.NS + "/" + u
			}
			authTargets[u] = true
		}
	}
	for _, n := range ulUse {
		if n > 1 {
			out = append(out, "shared-userlist")
			break
		}
	}
	if len(authTargets) >= 3 {
		out = append(out, "auth-url-targets>=3")
	}
	for _, n := range hostUse {
		if n > 1 {
			sharedHost = true
		}
	}
	for _, n := range backUse {
		if n > 1 {
			sharedBack = true
		}
	}
	if sharedHost {
		out = append(out, "shared-host")
	}
	if sharedBack {
		out = append(out, "shared-backend")
	}
	for _, n := range secUse {
		if n > 1 {
			out = append(out, "shared-secret")
			break
		}
	}
	for i, b := range c.Batches {
		seen := map[string]string{}
		for _, op := range b {
			k := op.Obj.Key()
			if prev, ok := seen[k]; ok {
				out = append(out, "same-object-twice:"+prev+"+"+op.Op)
			}
			seen[k] = op.Op
		}
		if i < len(c.Split) && c.Split[i] >= 0 {
			out = append(out, "api-ahead-of-events")
		}
	}
	return dedup(out)
}

func dedup(in []string) []string {
	seen := map[string]bool{}
	var out []string
	for _, s := range in {
		if !seen[s] {
			seen[s] = true
			out = append(out, s)
		}
	}
	return out
}
