package props

import (
	"fmt"
	"sort"
	"strings"
	"testing"

	"pgregory.net/rapid"

	"verifharness/ctlsim"
	"verifharness/hapcfg"
	"verifharness/world"
)

// C15 — each TLS host is served with the certificate its Ingress declares, else the default.

var c15Kinds = []string{world.KIngress, world.KIngress, world.KSecret, world.KSecret, world.KSecret}

func c15Profile() Profile {
	p := defaultProfile()
	p.Hosts = []string{"h1.local", "h2.local", "h3.local", "*.w.local"}
	p.MissingRefs = true
	p.MultiTLS = true
	p.DefBackend = false
	p.EmptyHost = false
	p.Ann = []annChoice{{"balance-algorithm", []string{"roundrobin", "leastconn"}}, {"ssl-redirect", []string{"false"}}}
	p.SvcAnn = nil
	p.MaxIng = 5
	p.RotateTogether = true
	return p
}

func genC15(t *rapid.T) HistCase {
	params := ctlsim.Params{
		DefaultCrt: rapid.SampledFrom([]string{"", "", "a/t1", "b/t3", "a/nope"}).Draw(t, "defcrt"),
		Shards:     rapid.SampledFrom([]int{0, 0, 2}).Draw(t, "shards"),
	}
	p := c15Profile()
	if chanceT(t, "dashnames", 30) {
		// names with dashes: a/b-t1 and a-b/t1 are two secrets (of two tenants) whose namespace and name
		// concatenate to the same text
		p.NS = []string{"a", "a-b"}
		p.SecretNames = []string{"t1", "b-t1", "t3"}
	}
	return genHistory(t, p, params, c15Kinds, sizeScale(5, 9), 3)
}

// refCertID is the identity of the certificate a secret holds ("" when the
// secret cannot provide one).
func refCertID(w *world.World, ns, name string) string {
	sec := w.Get(world.KSecret, ns+"/"+name)
	if sec == nil {
		return ""
	}
	switch sec.SecretKind {
	case "tls", "tlsca", "tlschain":
		return world.PoolCert(sec.Cert).Fingerprint()
	}
	return ""
}

// refCertOf is the documented certificate selection: the secret of the tls entry
// of the first-created ingress that lists the host, else the default certificate.
func refCertOf(w *world.World, p ctlsim.Params, sni string) string {
	def := "fake-default"
	if p.DefaultCrt != "" {
		parts := strings.SplitN(p.DefaultCrt, "/", 2)
		if id := refCertID(w, parts[0], parts[1]); id != "" {
			def = id
		}
	}
	sni = strings.ToLower(sni)
	match := func(h string) bool {
		h = strings.ToLower(h)
		if h == sni {
			return true
		}
		if strings.HasPrefix(h, "*.") {
			if i := strings.Index(sni, "."); i > 0 && sni[i:] == h[1:] {
				return true
			}
		}
		return false
	}
	// exact host declarations take precedence over wildcard ones (SNI lookup order)
	for _, exact := range []bool{true, false} {
		for _, ing := range sortedIngresses(w, p) {
			if ing.Ann["tcp-service-port"] != "" {
				continue
			}
			for _, tls := range ing.TLS {
				for _, h := range tls.Hosts {
					if (strings.ToLower(h) == sni) != exact || !match(h) {
						continue
					}
					if tls.Secret == "" {
						return def
					}
					if id := refCertID(w, ing.NS, tls.Secret); id != "" {
						return id
					}
					return def
				}
			}
		}
	}
	return def
}

func servedCert(st interface {
}, entries []hapcfg.CrtListEntry, certs map[string]string, sni string) string {
	f := hapcfg.SelectCert(entries, sni)
	if f == "" {
		return "<none>"
	}
	if strings.HasSuffix(f, "/_fake-default.pem") {
		return "fake-default"
	}
	pem, ok := certs[f]
	if !ok {
		return "<not loaded: " + f + ">"
	}
	return world.FingerprintOfPEM([]byte(pem))
}

func c15SNIs(w *world.World) []string {
	set := map[string]bool{"unknown.local": true, "x.w.local": true, "y.x.w.local": true}
	for _, o := range w.OfKind(world.KIngress) {
		for _, r := range o.Rules {
			if r.Host != "" && !strings.HasPrefix(r.Host, "*.") {
				set[r.Host] = true
			}
		}
		for _, t := range o.TLS {
			for _, h := range t.Hosts {
				if !strings.HasPrefix(h, "*.") {
					set[h] = true
				}
			}
		}
	}
	var out []string
	for k := range set {
		out = append(out, k)
	}
	sort.Strings(out)
	return out
}

func execC15(c HistCase) *Failure {
	st := getStats("C15")
	conflict, rotatedDyn := false, false
	steps := 0
	f := histRun(c, func(s *ctlsim.Sim, batch int, infos []ctlsim.StepInfo) *Failure {
		steps += len(infos)
		if err := stepErrors(infos); err != nil {
			return failf("C15:update-error", "batch %d: %v", batch, err)
		}
		for _, in := range infos {
			if in.Cmds > 0 && in.Reloads == 0 {
				for _, l := range in.Logs {
					if strings.Contains(l, "certificate updated for") {
						rotatedDyn = true
					}
				}
			}
			for _, l := range in.Logs {
				if strings.Contains(l, "was already assigned") {
					conflict = true
				}
			}
		}
		state := s.Hap.Snapshot()
		entries := state.CrtLists["_front_https"]
		if entries == nil {
			for fe, e := range state.CrtLists {
				if strings.HasPrefix(fe, "_front_https") {
					entries = e
				}
			}
		}
		for _, sni := range c15SNIs(s.World) {
			want := refCertOf(s.World, c.Params, sni)
			got := servedCert(nil, entries, state.Certs, sni)
			if got != want {
				sig := "C15:wrong-certificate"
				if want == "fake-default" || (got != "fake-default" && !strings.HasPrefix(got, "<")) {
					// served a real certificate where another (or the default) was expected
					sig = "C15:wrong-certificate"
				}
				return failf(sig, "after batch %d: SNI %s is served certificate %s, the declared one is %s (default-ssl-certificate=%q)\nhistory:\n%s", batch, sni, got, want, c.Params.DefaultCrt, describeBatches(c))
			}
		}
		return nil
	})
	labels := histLabels(c)
	if conflict {
		labels = append(labels, "conflicting-tls-declarations")
	}
	if rotatedDyn {
		labels = append(labels, "rotation-applied-dynamically")
	}
	st.Case(c, conflict || rotatedDyn, labels...)
	st.Count("reconcile_steps", steps)
	_ = fmt.Sprint
	return f
}

func init() { registerReplay("C15", execC15) }

func TestC15(t *testing.T) {
	runProperty(t, "C15", genC15, execC15)
}
