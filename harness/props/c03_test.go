package props

import (
	"fmt"
	"sort"
	"strings"
	"testing"

	"pgregory.net/rapid"

	"verifharness/ctlsim"
	"verifharness/hapcfg"
	"verifharness/world"
)

// C03 — requests reach exactly the ready endpoints the Ingress and Service designate.

// WorldCase is a cluster state plus controller options (fresh sync, no history).
type WorldCase struct {
	Params ctlsim.Params `json:"params"`
	Objs   []*world.Obj  `json:"objs"`
}

func c03Profile() Profile {
	p := defaultProfile()
	p.MissingRefs = true
	p.GlobalCM = true
	p.GlobalKeys = []annChoice{{"drain-support", []string{"true", "false"}}}
	p.Ann = []annChoice{
		{"balance-algorithm", []string{"roundrobin", "leastconn"}},
		{"ssl-redirect", []string{"true", "false"}},
		{"timeout-server", []string{"10s", "20s"}},
		{"path-type", []string{"begin", "prefix", "exact", "Begin"}},
		{"hsts", []string{"false"}},
		{"maxconn-server", []string{"10"}},
	}
	p.MaxIng = 6
	return p
}

func genC03(t *rapid.T) WorldCase {
	g := newG(t, c03Profile())
	g.genWorld()
	c := WorldCase{Params: ctlsim.Params{
		Shards:         rapid.SampledFrom([]int{0, 0, 2}).Draw(t, "shards"),
		DefaultBackend: rapid.SampledFrom([]string{"", "", "a/s1", "b/s2", "a/s9"}).Draw(t, "defback"),
	}}
	for _, o := range g.W.List() {
		c.Objs = append(c.Objs, o.Clone())
	}
	return c
}

func setOf(m map[string]bool) string {
	var ks []string
	for k := range m {
		ks = append(ks, k)
	}
	sort.Strings(ks)
	return strings.Join(ks, ",")
}

func execC03(c WorldCase) *Failure {
	st := getStats("C03")
	w := world.FromList(c.Objs)
	s, steps, err := freshSim(c.Params, c.Objs)
	if err != nil {
		panic(err)
	}
	defer s.Close()
	if e := stepErrors(steps); e != nil {
		return failf("C03:update-error", "update failed: %v", e)
	}
	cfg, perr := hapcfg.LoadDir(s.CfgDir())
	if len(perr) > 0 {
		return failf("C03:unparsable", "%v", perr)
	}
	ref := refBuild(w, c.Params)
	drain := false
	if cm := w.Get(world.KConfigMap, world.GlobalCM); cm != nil {
		drain = cm.Data["drain-support"] == "true"
	}
	reqs, _ := requestsFor(c.Objs)
	nontrivialReqs, incon, fallthroughs := 0, 0, 0
	checkedBackends := map[string]bool{}
	for _, rq := range reqs {
		res := cfg.Route(rq)
		if res.Inconclusive() && res.Backend == "" {
			incon++
			continue
		}
		allowed := ref.route(rq.HTTPS, rq.Host, rq.Path)
		if res.Final != nil && res.Backend == "" {
			return failf("C03:frontend-action", "request %s ended in the frontend by %q; expected routing to %s", rq, res.Final.Raw, allowed[0].ID)
		}
		var match *refBackend
		for _, a := range allowed {
			if a.ID == res.Backend {
				match = a
			}
		}
		host := strings.ToLower(strings.SplitN(rq.Host, ":", 2)[0])
		if len(ref.Hosts[host]) >= 2 || allowed[0].ID == "_error404" || (ref.Default != nil && allowed[0] == ref.Default) {
			nontrivialReqs++
		}
		if _, declared := ref.Hosts[host]; !declared || len(ref.winners(host, rq.Path)) == 0 {
			fallthroughs++
		}
		if match == nil {
			var ids []string
			for _, a := range allowed {
				ids = append(ids, a.ID)
			}
			sig := "C03:wrong-backend"
			if rq.HTTPS && !ref.TLS[host] {
				sig = "C03:https-host-without-tls"
			}
			return failf(sig, "request %s is sent to backend %q, the documented rules give %v\ntrace:\n  %s", rq, res.Backend, ids, strings.Join(res.Trace, "\n  "))
		}
		if match.ID == "_error404" || checkedBackends[match.ID] {
			continue
		}
		checkedBackends[match.ID] = true
		be := cfg.Backend(res.Backend)
		ready, drained := map[string]bool{}, map[string]bool{}
		for _, sv := range be.Servers {
			if sv.Disabled {
				continue
			}
			if sv.Weight > 0 {
				ready[sv.Target] = true
			} else {
				drained[sv.Target] = true
			}
		}
		if setOf(ready) != setOf(match.Ready) {
			return failf("C03:wrong-servers", "backend %s (request %s): servers with weight>0 are {%s}, the ready endpoints of the service port are {%s}", be.Name, rq, setOf(ready), setOf(match.Ready))
		}
		if !drain && len(drained) > 0 {
			return failf("C03:drain-without-support", "backend %s has weight-0 servers {%s} although drain-support is off", be.Name, setOf(drained))
		}
		if drain && setOf(drained) != setOf(match.Drained) {
			return failf("C03:wrong-drained-servers", "backend %s: weight-0 servers are {%s}, the not-ready endpoints are {%s}", be.Name, setOf(drained), setOf(match.Drained))
		}
	}
	labels := []string{fmt.Sprintf("drain=%v", drain)}
	if c.Params.DefaultBackend != "" {
		labels = append(labels, "default-backend-service")
	}
	if len(ref.Hosts[""]) > 0 {
		labels = append(labels, "default-host-rules")
	}
	multi := false
	for h, rs := range ref.Hosts {
		owners := map[string]bool{}
		for _, r := range rs {
			owners[r.Ing] = true
		}
		if h != "" && len(owners) >= 2 {
			multi = true
		}
	}
	if multi {
		labels = append(labels, "host-shared-by-ingresses")
	}
	if len(ref.TLS) > 0 {
		labels = append(labels, "tls-hosts")
	}
	st.Case(c, multi || len(ref.Hosts[""]) > 0, labels...)
	st.Count("requests", len(reqs))
	st.Count("requests_nontrivial", nontrivialReqs)
	st.Count("requests_fallthrough", fallthroughs)
	st.Count("requests_inconclusive", incon)
	return nil
}

func init() { registerReplay("C03", execC03) }

func TestC03(t *testing.T) {
	runProperty(t, "C03", genC03, execC03)
}
