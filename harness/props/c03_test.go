package props

import (
	"fmt"
	"sort"
	"strings"
	"testing"

	"pgregory.net/rapid"

	"verifharness/ctlsim"
	"verifharness/hapcfg"
	"verifharness/world"
)

// C03 — requests reach exactly the ready endpoints the Ingress and Service designate.

// WorldCase is a cluster state plus controller options (fresh sync, no history).
type WorldCase struct {
	Params ctlsim.Params `json:"params"`
	Objs   []*world.Obj  `json:"objs"`
}

func c03Profile() Profile {
	p := defaultProfile()
	p.MissingRefs = true
	p.GlobalCM = true
	p.GlobalKeys = []annChoice{{"drain-support", []string{"true", "false"}}, {"strict-host", []string{"true", "true", "false"}}}
	p.Ann = []annChoice{
		{"balance-algorithm", []string{"roundrobin", "leastconn"}},
		{"ssl-redirect", []string{"true", "false"}},
		{"timeout-server", []string{"10s", "20s"}},
		{"path-type", []string{"begin", "prefix", "exact", "Begin"}},
		{"hsts", []string{"false"}},
		{"maxconn-server", []string{"10"}},
		// the Service itself (cluster IP, service port) is the only server
		{"service-upstream", []string{"true"}},
	}
	p.MaxIng = 6
	return p
}

func genC03(t *rapid.T) WorldCase {
	p := c03Profile()
	p.Pods = true
	g := newG(t, p)
	g.genWorld()
	g.genPods(20)
	c := WorldCase{Params: ctlsim.Params{
		Shards:         rapid.SampledFrom([]int{0, 0, 2}).Draw(t, "shards"),
		DefaultBackend: rapid.SampledFrom([]string{"", "", "a/s1", "b/s2", "a/s9"}).Draw(t, "defback"),
		// --enable-endpointslices-api: the endpoints are published (and read) as EndpointSlice objects
		EPSlices: chanceT(t, "epslices", 25),
	}}
	for _, o := range g.W.List() {
		c.Objs = append(c.Objs, o.Clone())
	}
	return c
}

func setOf(m map[string]bool) string {
	var ks []string
	for k := range m {
		ks = append(ks, k)
	}
	sort.Strings(ks)
	return strings.Join(ks, ",")
}

// routingStats is what the routing oracle observed (for the evidence).
type routingStats struct {
	Requests, Nontrivial, Fallthrough, Incon int
	Multi, DefaultRules, TLSHosts, Drain     bool
}

// routingOracle compares, for every request of the alphabet, the backend and the
// servers the written configuration selects with the documented rules computed
// from the objects. sigPrefix names the property in failure signatures.
func routingOracle(s *ctlsim.Sim, objs []*world.Obj, params ctlsim.Params, sigPrefix string) (*Failure, routingStats) {
	var rs routingStats
	w := world.FromList(objs)
	cfg, perr := hapcfg.LoadDir(s.CfgDir())
	if len(perr) > 0 {
		return failf(sigPrefix+":unparsable", "%v", perr), rs
	}
	ref := refBuild(w, params)
	if cm := w.Get(world.KConfigMap, world.GlobalCM); cm != nil {
		rs.Drain = cm.Data["drain-support"] == "true"
	}
	reqs, _ := requestsFor(objs)
	rs.Requests = len(reqs)
	checkedBackends := map[string]bool{}
	for _, rq := range reqs {
		res := cfg.Route(rq)
		if res.Inconclusive() && res.Backend == "" {
			rs.Incon++
			continue
		}
		allowed := ref.route(rq.HTTPS, rq.Host, rq.Path)
		if res.Final != nil && res.Backend == "" {
			return failf(sigPrefix+":frontend-action", "request %s ended in the frontend by %q; expected routing to %s", rq, res.Final.Raw, allowed[0].ID), rs
		}
		var match *refBackend
		for _, a := range allowed {
			if a.ID == res.Backend {
				match = a
			}
		}
		host := strings.ToLower(strings.SplitN(rq.Host, ":", 2)[0])
		if len(ref.Hosts[host]) >= 2 || allowed[0].ID == "_error404" || (ref.Default != nil && allowed[0] == ref.Default) {
			rs.Nontrivial++
		}
		if _, declared := ref.Hosts[host]; !declared || len(ref.winners(host, rq.Path)) == 0 {
			rs.Fallthrough++
		}
		if match == nil {
			var ids []string
			for _, a := range allowed {
				ids = append(ids, a.ID)
			}
			sig := sigPrefix + ":wrong-backend"
			if rq.HTTPS && !ref.TLS[host] {
				sig = sigPrefix + ":https-host-without-tls"
			}
			return failf(sig, "request %s is sent to backend %q, the documented rules give %v\ntrace:\n  %s", rq, res.Backend, ids, strings.Join(res.Trace, "\n  ")), rs
		}
		if match.ID == "_error404" || checkedBackends[match.ID] || match.Unjudged {
			continue
		}
		checkedBackends[match.ID] = true
		be := cfg.Backend(res.Backend)
		ready, drained := map[string]bool{}, map[string]bool{}
		for _, sv := range be.Servers {
			if sv.Disabled {
				continue
			}
			if sv.Weight > 0 {
				ready[sv.Target] = true
			} else {
				drained[sv.Target] = true
			}
		}
		if setOf(ready) != setOf(match.Ready) {
			return failf(sigPrefix+":wrong-servers", "backend %s (request %s): servers with weight>0 are {%s}, the ready endpoints of the service port are {%s}", be.Name, rq, setOf(ready), setOf(match.Ready)), rs
		}
		if !rs.Drain && len(drained) > 0 {
			return failf(sigPrefix+":drain-without-support", "backend %s has weight-0 servers {%s} although drain-support is off", be.Name, setOf(drained)), rs
		}
		if rs.Drain && setOf(drained) != setOf(match.Drained) {
			return failf(sigPrefix+":wrong-drained-servers", "backend %s: weight-0 servers are {%s}, the not-ready endpoints are {%s}", be.Name, setOf(drained), setOf(match.Drained)), rs
		}
	}
	rs.DefaultRules = len(ref.Hosts[""]) > 0
	for h, rules := range ref.Hosts {
		owners := map[string]bool{}
		for _, r := range rules {
			owners[r.Ing] = true
		}
		if h != "" && len(owners) >= 2 {
			rs.Multi = true
		}
	}
	rs.TLSHosts = len(ref.TLS) > 0
	return nil, rs
}

func execC03(c WorldCase) *Failure {
	st := getStats("C03")
	s, steps, err := freshSim(c.Params, c.Objs)
	if err != nil {
		panic(err)
	}
	defer s.Close()
	if e := stepErrors(steps); e != nil {
		return failf("C03:update-error", "update failed: %v", e)
	}
	f, rs := routingOracle(s, c.Objs, c.Params, "C03")
	if f != nil {
		return f
	}
	labels := []string{fmt.Sprintf("drain=%v", rs.Drain)}
	if c.Params.DefaultBackend != "" {
		labels = append(labels, "default-backend-service")
	}
	if rs.DefaultRules {
		labels = append(labels, "default-host-rules")
	}
	if rs.Multi {
		labels = append(labels, "host-shared-by-ingresses")
	}
	if rs.TLSHosts {
		labels = append(labels, "tls-hosts")
	}
	st.Case(c, rs.Multi || rs.DefaultRules, labels...)
	st.Count("requests", rs.Requests)
	st.Count("requests_nontrivial", rs.Nontrivial)
	st.Count("requests_fallthrough", rs.Fallthrough)
	st.Count("requests_inconclusive", rs.Incon)
	return nil
}

func init() { registerReplay("C03", execC03) }

func TestC03(t *testing.T) {
	runProperty(t, "C03", genC03, execC03)
}
