package props

import (
	"fmt"
	"sort"
	"strings"
	"testing"

	hatypes "github.com/jcmoraisjr/haproxy-ingress/pkg/haproxy/types"
	"pgregory.net/rapid"

	"verifharness/hapcfg"
)

// C04 — path precedence in the generated maps.

// C04Rule is one declared host/path rule.
type C04Rule struct {
	Host string `json:"host"`
	Path string `json:"path"`
	Type string `json:"type"` // exact, prefix, begin
}

// C04Case is a rule set plus the configured path-type order.
type C04Case struct {
	Order []string  `json:"order"`
	Rules []C04Rule `json:"rules"`
}

var c04Hosts = []string{"d.local", "sub.d.local", "x.local", hatypes.DefaultHost}

// alphabet closed under prefixes, sub-directories and case variants; includes a
// path that spells a host name (exercises the host#path separator).
var c04Paths = []string{"/", "/app", "/app/", "/app/sub", "/app1", "/App", "/APP/sub", "/app/sub/x", "/b", "/d.local", "/ap", "/app/s"}

// request paths: the alphabet plus neighbours
var c04ReqPaths = append(append([]string{}, c04Paths...),
	"/app/subx", "/app/sub/", "/app1/x", "/App/sub", "/App/", "/x", "/app/SUB", "/a", "/APP", "/app/sub/x/y", "/B", "/b/", "/d.local/app", "/bb", "/app/s/t")

var c04Types = []string{"exact", "prefix", "begin"}

func c04Orders() [][]string {
	base := []string{"exact", "prefix", "begin", "regex"}
	var out [][]string
	var perm func(a []string, k int)
	perm = func(a []string, k int) {
		if k == len(a) {
			out = append(out, append([]string{}, a...))
			return
		}
		for i := k; i < len(a); i++ {
			a[k], a[i] = a[i], a[k]
			perm(a, k+1)
			a[k], a[i] = a[i], a[k]
		}
	}
	perm(base, 0)
	return out
}

var c04AllOrders = c04Orders()

func genC04(t *rapid.T) C04Case {
	c := C04Case{Order: rapid.SampledFrom(c04AllOrders).Draw(t, "order")}
	nh := rapid.IntRange(1, 3).Draw(t, "nhosts")
	hosts := make([]string, nh)
	for i := range hosts {
		hosts[i] = rapid.SampledFrom(c04Hosts).Draw(t, "host")
	}
	if chanceT(t, "deep", 35) {
		// deep trees: chains of 3..5 nested directories with siblings, mostly on one host, each path declared
		// with one or two non-exact types. Which priority file a rule lands in depends on the files created
		// for the longer rules (and the hosts) processed before it.
		for _, p := range c04DeepPaths {
			if !chanceT(t, "usepath", 65) {
				continue
			}
			h := hosts[0]
			if len(hosts) > 1 && chanceT(t, "otherhost", 20) {
				h = hosts[1]
			}
			ty := rapid.SampledFrom([]string{"prefix", "begin", "prefix", "begin", "exact"}).Draw(t, "rtype")
			c.Rules = append(c.Rules, C04Rule{Host: h, Path: p, Type: ty})
			if ty != "exact" && chanceT(t, "bothtypes", 25) {
				other := map[string]string{"prefix": "begin", "begin": "prefix"}[ty]
				c.Rules = append(c.Rules, C04Rule{Host: h, Path: p, Type: other})
			}
		}
		if len(c.Rules) > 0 {
			return c
		}
	}
	n := rapid.IntRange(1, sizeScale(8, 12)).Draw(t, "nrules")
	for i := 0; i < n; i++ {
		c.Rules = append(c.Rules, C04Rule{
			Host: rapid.SampledFrom(hosts).Draw(t, "rhost"),
			Path: rapid.SampledFrom(c04Paths).Draw(t, "rpath"),
			Type: rapid.SampledFrom(c04Types).Draw(t, "rtype"),
		})
	}
	return c
}

var c04DeepPaths = []string{"/", "/a", "/a/b", "/a/x", "/a/x/y", "/a/x/y/z", "/p", "/p/q", "/p/q/r", "/P/q", "/a/X"}

type c04Built struct {
	maps   map[string]*hatypes.HostsMap // host group ("" or <default>) -> map
	target map[string]C04Rule           // target id -> rule
	rules  []C04Rule                    // de-duplicated, as the converter admits them
}

// c04Build feeds the rule set to the real map builder the way WriteFrontendMaps does.
func c04Build(c C04Case) *c04Built {
	order := make([]hatypes.MatchType, len(c.Order))
	for i, o := range c.Order {
		order[i] = hatypes.MatchType(o)
	}
	hosts := hatypes.CreateHosts()
	backends := hatypes.CreateBackends(0)
	b := &c04Built{maps: map[string]*hatypes.HostsMap{}, target: map[string]C04Rule{}}
	seen := map[C04Rule]bool{}
	for i, r := range c.Rules {
		if seen[r] {
			continue // "skipping redeclared path" in the converter
		}
		seen[r] = true
		host := hosts.AcquireHost(r.Host)
		back := backends.AcquireBackend("ns", fmt.Sprintf("t%02d", i), "8080")
		host.AddPath(back, r.Path, hatypes.MatchType(r.Type))
		b.target[back.ID] = r
		b.rules = append(b.rules, r)
	}
	mb := hatypes.CreateMaps(order)
	hostMap := mb.AddMap("/maps/_front_http_host.map")
	defMap := mb.AddMap("/maps/_front_defaulthost.map")
	if dh := hosts.DefaultHost(); dh != nil {
		for _, p := range dh.Paths {
			defMap.AddHostnamePathMapping(hatypes.DefaultHost, p, p.Backend.ID)
		}
	}
	for _, h := range hosts.BuildSortedItems() {
		for _, p := range h.Paths {
			hostMap.AddHostnamePathMapping(h.Hostname, p, p.Backend.ID)
		}
	}
	b.maps[""] = hostMap
	b.maps[hatypes.DefaultHost] = defMap
	return b
}

// c04Lookup evaluates the emitted match files in order with HAProxy semantics.
func c04Lookup(m *hatypes.HostsMap, host, path string) (string, string) {
	for _, mf := range m.MatchFiles() {
		sample := host + "#" + path
		if mf.Lower() {
			sample = strings.ToLower(sample)
		}
		vals := mf.Values()
		entries := make([]hapcfg.MapEntry, len(vals))
		for i, v := range vals {
			entries[i] = hapcfg.MapEntry{Key: v.Key, Value: v.Value}
		}
		if v, ok := hapcfg.LookupMap(entries, mf.Method(), sample, false); ok {
			return v, mf.Filename()
		}
	}
	return "", ""
}

// refMatches is the documented matching of one rule against a request path.
func refMatches(r C04Rule, path string) bool {
	switch r.Type {
	case "exact":
		return path == r.Path
	case "begin":
		return strings.HasPrefix(strings.ToLower(path), strings.ToLower(r.Path))
	case "prefix":
		d := strings.TrimRight(r.Path, "/")
		return path == d || strings.HasPrefix(path, d+"/") || (d == "" && strings.HasPrefix(path, "/"))
	}
	return false
}

// refWinners returns the set of rules allowed to win for (host, path), nil if none matches.
func refWinners(rules []C04Rule, host, path string) []C04Rule {
	var exact, others []C04Rule
	for _, r := range rules {
		if r.Host != host || !refMatches(r, path) {
			continue
		}
		if r.Type == "exact" {
			exact = append(exact, r)
		} else {
			others = append(others, r)
		}
	}
	if len(exact) > 0 {
		return exact
	}
	best := -1
	for _, r := range others {
		if l := len(r.Path); l > best {
			best = l
		}
	}
	var out []C04Rule
	for _, r := range others {
		if len(r.Path) == best {
			out = append(out, r)
		}
	}
	return out
}

func c04MixedCaseOverlap(rules []C04Rule, host string) bool {
	// F7 class: on one host, two rules of different non-exact types whose paths are
	// nested case-insensitively (which is how a begin rule matches) but not in the
	// byte-wise form the map builder compares (begin lower-cased, prefix verbatim).
	codePath := func(r C04Rule) string {
		if r.Type == "begin" {
			return strings.ToLower(r.Path)
		}
		return r.Path
	}
	for _, a := range rules {
		for _, b := range rules {
			if a.Host != host || b.Host != host || a.Type == b.Type || a.Type == "exact" || b.Type == "exact" {
				continue
			}
			la, lb := strings.ToLower(a.Path), strings.ToLower(b.Path)
			if la != lb && strings.HasPrefix(la, lb) && !strings.HasPrefix(codePath(a), codePath(b)) {
				return true
			}
		}
	}
	return false
}

// c04RequestPaths: the fixed request alphabet plus the neighbours of every declared path of the case
// (the path itself, with a trailing slash, one level below, a sibling spelling and another case), so
// that a saved or hand-written case over other paths is evaluated as thoroughly as a generated one.
func c04RequestPaths(rules []C04Rule) []string {
	seen := map[string]bool{}
	var out []string
	add := func(p string) {
		if !seen[p] {
			seen[p] = true
			out = append(out, p)
		}
	}
	for _, p := range c04ReqPaths {
		add(p)
	}
	for _, r := range rules {
		base := strings.TrimSuffix(r.Path, "/")
		add(r.Path)
		add(base + "/")
		add(base + "/1")
		add(base + "1")
		add(strings.ToUpper(base) + "/1")
	}
	return out
}

func execC04(c C04Case) *Failure {
	st := getStats("C04")
	b := c04Build(c)
	hostsUsed := map[string]bool{}
	for _, r := range b.rules {
		hostsUsed[r.Host] = true
	}
	// non-trivial: >= 2 rules of different types on one host where one path is a prefix of another
	nontrivial := false
	for _, a := range b.rules {
		for _, d := range b.rules {
			if a.Host == d.Host && a.Type != d.Type && a.Path != d.Path && strings.HasPrefix(strings.ToLower(a.Path), strings.ToLower(d.Path)) {
				nontrivial = true
			}
		}
	}
	labels := []string{fmt.Sprintf("hosts=%d", len(hostsUsed)), "order=" + strings.Join(c.Order[:3], ">")}
	if nontrivial {
		labels = append(labels, "nested-different-types")
	}
	st.Case(c, nontrivial, labels...)
	var hosts []string
	for h := range hostsUsed {
		hosts = append(hosts, h)
	}
	hosts = append(hosts, "other.local")
	sort.Strings(hosts)
	lookups := 0
	for _, h := range hosts {
		m := b.maps[""]
		if h == hatypes.DefaultHost {
			m = b.maps[hatypes.DefaultHost]
		}
		for _, p := range c04RequestPaths(b.rules) {
			lookups++
			got, file := c04Lookup(m, h, p)
			want := refWinners(b.rules, h, p)
			if len(want) == 0 {
				if got != "" {
					gr := b.target[got]
					sig := "C04:unexpected-match"
					if gr.Host != h {
						sig = "C04:cross-host-capture"
					}
					return failf(sig, "request %s%s: no declared rule matches, but file %s answers %v", h, p, file, gr)
				}
				continue
			}
			ok := false
			for _, w := range want {
				if b.target[got] == w {
					ok = true
				}
			}
			if !ok {
				sig := "C04:wrong-winner"
				if got == "" {
					sig = "C04:no-match"
				} else if b.target[got].Host != h {
					sig = "C04:cross-host-capture"
				} else if c04MixedCaseOverlap(b.rules, h) {
					sig = "C04:mixed-case-prefix-begin-overlap"
				}
				return failf(sig, "request %s%s: expected one of %v, got %v (file %s)\nfiles: %s", h, p, want, b.target[got], file, c04Dump(m))
			}
		}
	}
	st.Count("lookups", lookups)
	return nil
}

func c04Dump(m *hatypes.HostsMap) string {
	var sb strings.Builder
	for _, mf := range m.MatchFiles() {
		fmt.Fprintf(&sb, "[%s %s lower=%v:", mf.Filename(), mf.Method(), mf.Lower())
		for _, v := range mf.Values() {
			fmt.Fprintf(&sb, " %s=%s", v.Key, v.Value)
		}
		sb.WriteString("] ")
	}
	return sb.String()
}

func init() { registerReplay("C04", execC04) }

func TestC04(t *testing.T) {
	runProperty(t, "C04", genC04, execC04)
}

// TestC04Exhaustive enumerates every rule set of up to 3 rules over a 6-path
// alphabet x 3 types x 2 hosts, for all orders of the non-exact types.
func TestC04Exhaustive(t *testing.T) {
	if !thorough() && testing.Short() {
		t.Skip()
	}
	st := getStats("C04")
	paths := []string{"/", "/app", "/app/", "/app/sub", "/App", "/app1"}
	hosts := []string{"d.local", "x.local"}
	var all []C04Rule
	for _, h := range hosts {
		for _, p := range paths {
			for _, ty := range c04Types {
				all = append(all, C04Rule{h, p, ty})
			}
		}
	}
	maxRules := 2
	if thorough() {
		maxRules = 3
	}
	orders := [][]string{{"exact", "prefix", "begin", "regex"}, {"begin", "prefix", "exact", "regex"}, {"regex", "begin", "exact", "prefix"}}
	n := 0
	var firstFail *Failure
	var failCase C04Case
	var rec func(start int, cur []C04Rule)
	rec = func(start int, cur []C04Rule) {
		if firstFail != nil {
			return
		}
		if len(cur) > 0 {
			for _, o := range orders {
				c := C04Case{Order: o, Rules: append([]C04Rule{}, cur...)}
				n++
				if f := execC04(c); f != nil && !isKnown("C04", f.Signature) {
					firstFail, failCase = f, c
					return
				} else if f != nil {
					st.mu.Lock()
					st.KnownHits[f.Signature]++
					st.mu.Unlock()
				}
			}
		}
		if len(cur) == maxRules {
			return
		}
		for i := start; i < len(all); i++ {
			rec(i+1, append(cur, all[i]))
		}
	}
	rec(0, nil)
	st.mu.Lock()
	st.Extra["exhaustive_part"] = map[string]interface{}{"rule_sets_x_orders": n, "max_rules": maxRules, "paths": paths, "hosts": hosts, "orders": orders, "exhaustive": firstFail == nil}
	st.mu.Unlock()
	if firstFail != nil {
		path := saveReplay("C04", "C04", failCase, firstFail)
		line := fmt.Sprintf("VIOLATION property=C04 replay=%s", path)
		fmt.Println(line)
		st.mu.Lock()
		st.Violations = append(st.Violations, line+" :: "+firstFail.Signature)
		st.mu.Unlock()
		t.Errorf("%s\n%s", line, firstFail.Msg)
	}
}
