package props

import (
	"fmt"
	"path/filepath"
	"sort"
	"strings"
	"testing"

	hatypes "github.com/jcmoraisjr/haproxy-ingress/pkg/haproxy/types"
	"pgregory.net/rapid"

	"verifharness/ctlsim"
	"verifharness/hapcfg"
	"verifharness/simhap"
	"verifharness/world"
)

// C05 — the files HAProxy loads hold exactly the current model.

var c05Kinds = []string{
	world.KIngress, world.KIngress, world.KIngress, world.KIngress, world.KIngress,
	world.KService, world.KEndpoints, world.KSecret, world.KConfigMap,
}

func c05Profile() Profile {
	p := defaultProfile()
	p.MissingRefs = true
	p.GlobalCM = true
	p.AuthSecret = true
	p.GlobalKeys = []annChoice{{"timeout-client", []string{"30s", "40s"}}, {"max-connections", []string{"1000", "3000"}},
		// rendered inside the backend sections: a change rewrites every shard file, also when it is a revert
		{"ssl-redirect-code", []string{"301", "307"}}, {"cookie-key", []string{"k1", "k2"}}}
	p.Ann = append(p.Ann, annChoice{"auth-type", []string{"basic"}}, annChoice{"auth-secret", []string{"pw"}})
	p.Avoid = []avoidRule{{Sig: sigDefBackJoins, Pred: gainsDefaultBackend}}
	return p
}

// C05Case extends a history with "delete every ingress" and "revert" steps.
type C05Case struct {
	Hist   HistCase   `json:"hist"`
	Faults []C12Fault `json:"faults,omitempty"` // optional transient failure per batch (file write or reload), see C12
}

func genC05(t *rapid.T) C05Case {
	params := ctlsim.Params{Shards: rapid.SampledFrom([]int{0, 1, 2, 3, 4, 5}).Draw(t, "shards")}
	avoidParams = params
	g := newG(t, c05Profile())
	g.genWorld()
	c := HistCase{Params: params}
	for _, o := range g.W.List() {
		c.Init = append(c.Init, o.Clone())
	}
	nb := g.intn("nbatches", 1, sizeScale(5, 9))
	for b := 0; b < nb; b++ {
		var ops []world.Op
		switch {
		case g.chance("wipe", 12):
			// delete every ingress (empties every shard); sometimes with a global change => full resync
			for _, o := range g.W.OfKind(world.KIngress) {
				op := world.Op{Op: "delete", Obj: o.Clone()}
				_, _, _ = g.W.Apply(op)
				ops = append(ops, op)
			}
			if g.chance("wipefull", 50) {
				if op, ok := g.genOp([]string{world.KConfigMap}); ok {
					ops = append(ops, world.Op{Op: op.Op, Obj: op.Obj.Clone()})
				}
			}
		case g.chance("globalflip", 10) && g.W.Get(world.KConfigMap, world.GlobalCM) != nil && b+1 < nb:
			// a global option that is rendered inside the backend sections changes, and is set back by the next batch
			// (both are full syncs that leave every backend as it was)
			cur := g.W.Get(world.KConfigMap, world.GlobalCM)
			mut := cur.Clone()
			if mut.Data == nil {
				mut.Data = map[string]string{}
			}
			key := g.pick("flipkey", []string{"ssl-redirect-code", "cookie-key"})
			vals := map[string][]string{"ssl-redirect-code": {"301", "307"}, "cookie-key": {"k1", "k2"}}[key]
			if mut.Data[key] == vals[0] {
				mut.Data[key] = vals[1]
			} else {
				mut.Data[key] = vals[0]
			}
			back := cur.Clone()
			for _, op := range []world.Op{{Op: "update", Obj: mut}, {Op: "update", Obj: back}} {
				_, _, _ = g.W.Apply(op)
				c.Batches = append(c.Batches, []world.Op{{Op: op.Op, Obj: op.Obj.Clone()}})
				c.Split = append(c.Split, -1)
			}
			b++
		case g.chance("revert", 12):
			// change and revert one ingress inside one batch
			ex := g.existing(world.KIngress)
			if len(ex) > 0 {
				cur := ex[g.intn("which", 0, len(ex)-1)]
				mut := g.mutateIngress(cur)
				ops = append(ops, world.Op{Op: "update", Obj: mut}, world.Op{Op: "update", Obj: cur.Clone()})
				for _, op := range ops {
					_, _, _ = g.W.Apply(op)
				}
			}
		default:
			nops := g.intn("nops", 1, 4)
			for i := 0; i < nops; i++ {
				if op, ok := g.genOp(c05Kinds); ok {
					ops = append(ops, world.Op{Op: op.Op, Obj: op.Obj.Clone()})
				}
			}
		}
		if len(ops) > 0 {
			c.Batches = append(c.Batches, ops)
			c.Split = append(c.Split, -1)
		}
	}
	if len(g.Excluded) > 0 {
		c.Excluded = g.Excluded
	}
	cc := C05Case{Hist: c}
	// a quarter of the batches meet a transient failure; the property is then checked after the retry that succeeds
	for range c.Batches {
		f := C12Fault{}
		if chanceT(t, "faulty", 25) {
			f.Kind = rapid.SampledFrom([]string{"file", "file", "file", "reload"}).Draw(t, "fkind")
			if f.Kind == "file" {
				f.Pick = rapid.IntRange(0, 40).Draw(t, "fpick")
			} else {
				f.Pick, f.Mode = 1, simhap.FaultFail
			}
			f.Repeat = rapid.SampledFrom([]int{0, 0, 1}).Draw(t, "repeat")
		}
		cc.Faults = append(cc.Faults, f)
	}
	return cc
}

// templateBackends are the support backends the template emits on its own.
func isSupportBackend(name string) bool {
	return strings.HasPrefix(name, "_") && !strings.HasPrefix(name, "_auth_")
}

// c05Compare checks files against the model held by the instance.
func c05Compare(s *ctlsim.Sim) *Failure {
	m := s.Instance.Config()
	cfg, errs := hapcfg.LoadDir(s.CfgDir())
	if len(errs) > 0 {
		return failf("C05:unparsable", "cannot parse written files: %v", errs)
	}
	// (a) backend sections: each model backend exactly once, nothing else but support backends
	count := map[string][]string{}
	for _, b := range cfg.Backends {
		if b.Kind == "backend" {
			count[b.Name] = append(count[b.Name], filepath.Base(b.File))
		}
	}
	for id := range m.Backends().Items() {
		switch len(count[id]) {
		case 1:
		case 0:
			return failf("C05:backend-missing", "backend %s of the current model is in no cfg file", id)
		default:
			return failf("C05:backend-duplicated", "backend %s is defined %d times: %v", id, len(count[id]), count[id])
		}
	}
	var names []string
	for n := range count {
		names = append(names, n)
	}
	sort.Strings(names)
	for _, n := range names {
		if _, ok := m.Backends().Items()[n]; ok || isSupportBackend(n) {
			if len(count[n]) > 1 {
				return failf("C05:backend-duplicated", "backend %s is defined %d times: %v", n, len(count[n]), count[n])
			}
			continue
		}
		return failf("C05:stale-backend", "cfg file %v defines backend %s which is not in the current model (stale content HAProxy would load)", count[n], n)
	}
	// (b) servers
	for id, mb := range m.Backends().Items() {
		fb := cfg.Backend(id)
		if mb.Resolver != "" {
			continue
		}
		var want, got []string
		for _, ep := range mb.Endpoints {
			w := fmt.Sprintf("%s %s:%d enabled=%v weight=%d", ep.Name, ep.IP, ep.Port, ep.Enabled, ep.Weight)
			want = append(want, w)
		}
		for _, sv := range fb.Servers {
			got = append(got, fmt.Sprintf("%s %s:%d enabled=%v weight=%d", sv.Name, sv.Addr, sv.Port, !sv.Disabled, sv.Weight))
		}
		if strings.Join(want, "|") != strings.Join(got, "|") {
			return failf("C05:servers-differ", "backend %s: model endpoints %v, file %s has %v", id, want, filepath.Base(fb.File), got)
		}
	}
	// (c) host rules: union of the http host map files == model hosts/paths
	if f := c05Maps(s, m.Hosts(), "_front_http_host", false); f != nil {
		return f
	}
	if f := c05Maps(s, m.Hosts(), "_front_https_host", true); f != nil {
		return f
	}
	// (e) userlists
	ul := map[string]int{}
	for _, sec := range cfg.Sections {
		if sec.Kind == "userlist" {
			ul[sec.Name]++
		}
	}
	for _, u := range m.Userlists().BuildSortedItems() {
		if ul[u.Name] != 1 {
			return failf("C05:userlist", "userlist %s of the model appears %d times in the files", u.Name, ul[u.Name])
		}
		delete(ul, u.Name)
	}
	for n := range ul {
		return failf("C05:stale-userlist", "userlist %s is written but not in the model", n)
	}
	// (d) crt-list: one line per host with a custom certificate
	entries, err := cfg.CrtList(s.MapsDir() + "/_front_bind_crt.list")
	if err != nil {
		return failf("C05:crtlist", "crt-list unreadable: %v", err)
	}
	gotCrt := map[string]string{}
	for i, e := range entries {
		if i == 0 {
			continue
		}
		for _, flt := range e.Filters {
			if _, dup := gotCrt[flt]; dup {
				return failf("C05:crtlist-duplicate", "crt-list has two lines for %s", flt)
			}
			gotCrt[flt] = e.File
		}
	}
	def := m.Frontend().DefaultCrtFile
	for _, h := range m.Hosts().BuildSortedItems() {
		if h.SSLPassthrough() {
			continue
		}
		f := h.TLS.TLSFilename
		custom := (f != "" && f != def) || h.TLS.ALPN != "" || h.TLS.CAFilename != "" || h.TLS.Ciphers != "" || h.TLS.CipherSuites != "" || h.TLS.Options != ""
		if f == "" {
			f = def
		}
		if custom {
			if gotCrt[h.Hostname] != f {
				return failf("C05:crtlist-missing", "host %s has certificate %s in the model but crt-list says %q", h.Hostname, filepath.Base(f), gotCrt[h.Hostname])
			}
			delete(gotCrt, h.Hostname)
		}
	}
	for h, f := range gotCrt {
		return failf("C05:crtlist-stale", "crt-list binds %s for %s which the model does not", filepath.Base(f), h)
	}
	return nil
}

func c05Maps(s *ctlsim.Sim, hosts *hatypes.Hosts, base string, httpsOnly bool) *Failure {
	want := map[string]int{}
	for _, h := range hosts.BuildSortedItems() {
		if h.SSLPassthrough() || (httpsOnly && !h.HasTLS()) {
			continue
		}
		if strings.HasPrefix(h.Hostname, "*.") {
			continue // regex form, not compared textually
		}
		for _, p := range h.Paths {
			if p.Backend.ID == "" || p.Match() == hatypes.MatchRegex {
				continue
			}
			path := p.Path()
			if p.Match() == hatypes.MatchBegin {
				path = strings.ToLower(path)
			}
			want[strings.ToLower(h.Hostname)+"#"+path+" "+p.Backend.ID]++
			if h.Alias.AliasName != "" {
				want[strings.ToLower(h.Alias.AliasName)+"#"+path+" "+p.Backend.ID]++
			}
		}
	}
	got := map[string]int{}
	files, _ := filepath.Glob(filepath.Join(s.MapsDir(), base+"__*.map"))
	// only the files the main cfg references are loaded
	main := s.Files()["etc/haproxy/haproxy.cfg"]
	for _, f := range files {
		if !strings.Contains(main, f) || strings.Contains(filepath.Base(f), "__regex") {
			continue
		}
		c := &hapcfg.Config{}
		_ = c
		cfg, _ := hapcfg.LoadDir(s.CfgDir())
		for _, e := range cfg.Map(f).Entries {
			got[e.Key+" "+e.Value]++
		}
	}
	for k, n := range want {
		if got[k] != n {
			return failf("C05:map-entry-missing", "%s maps: model rule %q expected %d time(s), found %d", base, k, n, got[k])
		}
	}
	for k, n := range got {
		if want[k] != n {
			return failf("C05:map-entry-stale", "%s maps: entry %q found %d time(s), model has %d", base, k, n, want[k])
		}
	}
	return nil
}

func execC05(cc C05Case) *Failure {
	c := cc.Hist
	st := getStats("C05")
	fullAfterPartial, sawPartial, wiped := false, false, false
	steps, retried := 0, 0
	var active *poison
	var curFault C12Fault
	f := histRun2(c, func(s *ctlsim.Sim, batch int) {
		curFault = C12Fault{}
		if batch < len(cc.Faults) {
			curFault = cc.Faults[batch]
		}
		injectFault(s, curFault, &active)
	}, func(s *ctlsim.Sim, batch int, infos []ctlsim.StepInfo) *Failure {
		if batch >= 0 && curFault.Kind != "" {
			var attempts int
			var failed bool
			infos, attempts, failed = retryAfterFault(s, infos, curFault, &active)
			if failed {
				return failf("C05:update-error", "batch %d: the update still fails after the fault %+v was removed: %v", batch, curFault, infos[len(infos)-1].Err)
			}
			if attempts > 0 {
				retried++
			}
		} else if err := stepErrors(infos); err != nil {
			return failf("C05:update-error", "batch %d: update failed: %v", batch, err)
		}
		steps += len(infos)
		for _, in := range infos {
			if batch >= 0 {
				partial := false
				for _, l := range in.Logs {
					if strings.Contains(l, "syncing ") {
						partial = true
					}
				}
				if partial {
					sawPartial = true
				} else if sawPartial {
					fullAfterPartial = true
				}
			}
		}
		if batch >= 0 && len(s.World.OfKind(world.KIngress)) == 0 {
			wiped = true
		}
		if f := c05Compare(s); f != nil {
			f.Msg = fmt.Sprintf("after batch %d (shards=%d, fault %+v): %s\nhistory:\n%s", batch, c.Params.Shards, curFault, f.Msg, describeBatches(c))
			return f
		}
		return nil
	})
	labels := histLabels(c)
	if fullAfterPartial {
		labels = append(labels, "full-after-partial")
	}
	if wiped {
		labels = append(labels, "all-ingresses-deleted")
	}
	if retried > 0 {
		labels = append(labels, "update-failed-then-retried")
	}
	st.Count("updates_retried_after_fault", retried)
	st.Case(cc, (fullAfterPartial || wiped) && c.Params.Shards > 0, labels...)
	st.Count("reconcile_steps", steps)
	return f
}

func init() { registerReplay("C05", execC05) }

func TestC05(t *testing.T) {
	runProperty(t, "C05", genC05, execC05)
}
