package props

import (
	"crypto"
	"crypto/ecdsa"
	"crypto/elliptic"
	"crypto/rand"
	"crypto/x509"
	"crypto/x509/pkix"
	"fmt"
	"math/big"
	"sort"
	"strings"
	"testing"
	"strconv"
	"time"

	"github.com/jcmoraisjr/haproxy-ingress/pkg/acme"
	types_helper "github.com/jcmoraisjr/haproxy-ingress/pkg/types/helper_test"
	"pgregory.net/rapid"

	"verifharness/ctlsim"
	"verifharness/world"
)

// C17 — ACME: certificates requested exactly when needed; the queue tracks Ingress changes.

// ---------- part 1: the signer's decision ----------

// C17SignCase is one secret state plus the outcome of the acme client stub.
type C17SignCase struct {
	State      string   `json:"state"` // absent, unreadable, present
	DeltaSec   int      `json:"deltaSec"`
	WindowDays int      `json:"windowDays"`
	SANs       []string `json:"sans"`
	Domains    []string `json:"domains"`
	Client     string   `json:"client"` // both, error, crt-only, key-only, both+warning
}

func genC17Sign(t *rapid.T) C17SignCase {
	names := []string{"d1.local", "d2.local", "d3.local", "x.w.local", "y.w.local"}
	c := C17SignCase{
		State:      rapid.SampledFrom([]string{"present", "present", "present", "present", "absent", "unreadable"}).Draw(t, "state"),
		DeltaSec:   rapid.SampledFrom([]int{-30 * 86400, -3600, -5, -3, 5, 10, 3600, 30 * 86400}).Draw(t, "delta"),
		WindowDays: rapid.SampledFrom([]int{0, 1, 30, 60}).Draw(t, "window"),
		Client:     rapid.SampledFrom([]string{"both", "both", "error", "crt-only", "key-only", "both+warning"}).Draw(t, "client"),
	}
	nd := rapid.IntRange(1, 3).Draw(t, "ndomains")
	for i := 0; i < nd; i++ {
		c.Domains = append(c.Domains, rapid.SampledFrom(names).Draw(t, "domain"))
	}
	c.Domains = dedup(c.Domains)
	switch rapid.IntRange(0, 4).Draw(t, "sankind") {
	case 0: // exactly the domains
		c.SANs = append([]string{}, c.Domains...)
	case 1: // superset
		c.SANs = append(append([]string{}, c.Domains...), "extra.local")
	case 2: // subset (may be empty -> use another name)
		c.SANs = append([]string{}, c.Domains[1:]...)
		if len(c.SANs) == 0 {
			c.SANs = []string{"other.local"}
		}
	case 3: // wildcard
		c.SANs = []string{"*.w.local", "d1.local"}
	default:
		ns := rapid.IntRange(1, 3).Draw(t, "nsans")
		for i := 0; i < ns; i++ {
			c.SANs = append(c.SANs, rapid.SampledFrom(append(names, "*.w.local", "*.local")).Draw(t, "san"))
		}
		c.SANs = dedup(c.SANs)
	}
	return c
}

type c17Cache struct {
	crt       *x509.Certificate
	err       error
	gets      int
	stored    int
	storedCrt []byte
}

func (c *c17Cache) GetKey() (crypto.Signer, error)                  { return nil, fmt.Errorf("not used") }
func (c *c17Cache) SetToken(domain string, uri, token string) error { return nil }
func (c *c17Cache) GetToken(domain, uri string) string              { return "" }
func (c *c17Cache) GetTLSSecretContent(secretName string) (*acme.TLSSecret, error) {
	c.gets++
	if c.err != nil {
		return nil, c.err
	}
	return &acme.TLSSecret{Crt: c.crt}, nil
}
func (c *c17Cache) SetTLSSecretContent(secretName string, pemCrt, pemKey []byte) error {
	c.stored++
	c.storedCrt = pemCrt
	return nil
}

type c17Client struct {
	mode    string
	calls   int
	domains []string
}

func (c *c17Client) Sign(dnsnames []string, preferredChain string) (crt, key []byte, err error) {
	c.calls++
	c.domains = dnsnames
	switch c.mode {
	case "both":
		return []byte("CRT"), []byte("KEY"), nil
	case "both+warning":
		return []byte("CRT"), []byte("KEY"), fmt.Errorf("some warning")
	case "crt-only":
		return []byte("CRT"), nil, fmt.Errorf("no key")
	case "key-only":
		return nil, []byte("KEY"), fmt.Errorf("no crt")
	}
	return nil, nil, fmt.Errorf("acme server says no")
}

var c17Key = func() *ecdsa.PrivateKey {
	k, err := ecdsa.GenerateKey(elliptic.P256(), rand.Reader)
	if err != nil {
		panic(err)
	}
	return k
}()

func c17Cert(sans []string, notAfter time.Time) *x509.Certificate {
	tmpl := x509.Certificate{
		SerialNumber: big.NewInt(time.Now().UnixNano()),
		Subject:      pkix.Name{CommonName: "c17"},
		NotBefore:    notAfter.Add(-365 * 24 * time.Hour),
		NotAfter:     notAfter,
		DNSNames:     sans,
	}
	der, err := x509.CreateCertificate(rand.Reader, &tmpl, &tmpl, &c17Key.PublicKey, c17Key)
	if err != nil {
		panic(err)
	}
	crt, err := x509.ParseCertificate(der)
	if err != nil {
		panic(err)
	}
	return crt
}

func refCovers(sans []string, domain string) bool {
	d := strings.ToLower(domain)
	for _, s := range sans {
		s = strings.ToLower(s)
		if s == d {
			return true
		}
		if strings.HasPrefix(s, "*.") {
			if i := strings.Index(d, "."); i > 0 && d[i:] == s[1:] {
				return true
			}
		}
	}
	return false
}

func execC17Sign(c C17SignCase) *Failure {
	st := getStats("C17")
	window := time.Duration(c.WindowDays) * 24 * time.Hour
	cache := &c17Cache{}
	switch c.State {
	case "absent":
		cache.err = fmt.Errorf("secret not found")
	case "unreadable":
		cache.err = fmt.Errorf("error validating x509 certificate")
	default:
		cache.crt = c17Cert(c.SANs, time.Now().Add(window).Add(time.Duration(c.DeltaSec)*time.Second))
	}
	client := &c17Client{mode: c.Client}
	signer := acme.VerifNewSigner(&ctlsim.RecLogger{}, cache, types_helper.NewMetricsMock(), client, window)
	item := "a/secret1,," + strings.Join(c.Domains, ",")
	_ = signer.Notify(item)
	covering := true
	for _, d := range c.Domains {
		if !refCovers(c.SANs, d) {
			covering = false
		}
	}
	needed := c.State != "present" || c.DeltaSec < 0 || !covering
	boundary := c.State == "present" && (c.DeltaSec == -3 || c.DeltaSec == -5 || c.DeltaSec == 5 || c.DeltaSec == 10)
	st.Case(c, boundary || (c.State == "present" && !covering), "signer", "signer-state="+c.State, fmt.Sprintf("signer-needed=%v", needed))
	if needed && client.calls != 1 {
		return failf("C17:certificate-not-requested", "secret state %s (expires %ds after now+window, SANs %v) for domains %v needs a certificate, but Sign was called %d time(s)", c.State, c.DeltaSec, c.SANs, c.Domains, client.calls)
	}
	if !needed && client.calls != 0 {
		return failf("C17:valid-certificate-re-requested", "a valid certificate (expires %ds after now+window, SANs %v) covering %v was re-requested", c.DeltaSec, c.SANs, c.Domains)
	}
	if client.calls == 1 && strings.Join(client.domains, ",") != strings.Join(c.Domains, ",") {
		return failf("C17:wrong-domains-requested", "requested %v, declared %v", client.domains, c.Domains)
	}
	wantStore := needed && (c.Client == "both" || c.Client == "both+warning")
	if wantStore && cache.stored != 1 {
		return failf("C17:certificate-not-stored", "client returned certificate and key but the secret was written %d time(s)", cache.stored)
	}
	if !wantStore && cache.stored != 0 {
		return failf("C17:secret-written-without-certificate-and-key", "secret written %d time(s) although the client returned %q (needed=%v)", cache.stored, c.Client, needed)
	}
	return nil
}

// ---------- part 2: the work queue follows the cluster ----------

var c17Kinds = []string{world.KIngress, world.KIngress, world.KIngress, world.KIngress, world.KIngress, world.KSecret, world.KEndpoints, world.KConfigMap}

func c17Profile() Profile {
	p := defaultProfile()
	p.Classes = false
	p.DefBackend = false
	p.EmptyHost = false
	p.MultiTLS = true
	p.MissingRefs = true
	p.Ann = []annChoice{{"cert-signer", []string{"acme", "acme", "Acme", "none"}}, {"balance-algorithm", []string{"leastconn"}}}
	p.SvcAnn = nil
	// the renewal window is a global option: the signer must work with the current one
	p.GlobalCM = true
	p.GlobalKeys = []annChoice{{"acme-expiring", []string{"10", "45", "30"}}}
	p.GlobalAlways = map[string]string{"acme-endpoint": "v2-staging", "acme-emails": "admin@example.local", "acme-terms-agreed": "true"}
	return p
}

func genC17Queue(t *rapid.T) HistCase {
	params := ctlsim.Params{Acme: true, NotLeader: chanceT(t, "notleader", 15), AcmeTrackTLSAnn: rapid.Bool().Draw(t, "tlsann")}
	h := genHistory(t, c17Profile(), params, c17Kinds, sizeScale(6, 10), 3)
	for i := range h.Split {
		h.Split[i] = -1 // the per-step oracle needs every event of a batch delivered before its reconcile
	}
	// some ingresses use the kubernetes.io/tls-acme annotation instead
	for _, o := range h.Init {
		if o.Kind == world.KIngress && chanceT(t, "tlsacme", 25) {
			if o.RawAnn == nil {
				o.RawAnn = map[string]string{}
			}
			o.RawAnn["kubernetes.io/tls-acme"] = "true"
		}
	}
	return h
}

// refAcmeWanted: the storages (secret -> domain set) the cluster asks for.
func refAcmeWanted(w *world.World, p ctlsim.Params) map[string]bool {
	doms := map[string]map[string]bool{}
	for _, ing := range sortedIngresses(w, p) {
		if ing.Ann["tcp-service-port"] != "" {
			continue
		}
		enabled := strings.ToLower(ing.Ann["cert-signer"]) == "acme"
		if p.AcmeTrackTLSAnn && strings.ToLower(ing.RawAnn["kubernetes.io/tls-acme"]) == "true" {
			enabled = true
		}
		if !enabled {
			continue
		}
		for _, tls := range ing.TLS {
			if tls.Secret == "" {
				continue
			}
			k := ing.NS + "/" + tls.Secret
			if doms[k] == nil {
				doms[k] = map[string]bool{}
			}
			for _, h := range tls.Hosts {
				doms[k][h] = true
			}
		}
	}
	out := map[string]bool{}
	for k, ds := range doms {
		var l []string
		for d := range ds {
			l = append(l, d)
		}
		sort.Strings(l)
		out[k+",,"+strings.Join(l, ",")] = true
	}
	return out
}

func execC17Queue(c HistCase) *Failure {
	st := getStats("C17")
	prev := map[string]bool{}
	resyncUnchanged := false
	steps := 0
	f := histRun(c, func(s *ctlsim.Sim, batch int, infos []ctlsim.StepInfo) *Failure {
		steps += len(infos)
		if err := stepErrors(infos); err != nil {
			return failf("C17:update-error", "batch %d: %v", batch, err)
		}
		// a step is checked on its own: a full sync recreates the acme data and enqueues every
		// wanted storage again (by design), an incremental one only what appeared or changed
		var f *Failure
		for _, in := range infos {
			if f == nil {
				f = c17Step(c, s, batch, in, prev, &resyncUnchanged)
			}
			if !c.Params.NotLeader || true {
				prev = refAcmeWanted(s.World, c.Params)
			}
		}
		return f
	})
	labels := []string{"queue"}
	if c.Params.NotLeader {
		labels = append(labels, "queue-non-leader")
	}
	if resyncUnchanged {
		labels = append(labels, "queue-resync-of-unchanged-storage")
	}
	st.Case(c, resyncUnchanged, labels...)
	st.Count("reconcile_steps", steps)
	return f
}

func c17Step(c HistCase, s *ctlsim.Sim, batch int, in ctlsim.StepInfo, prev map[string]bool, resyncUnchanged *bool) *Failure {
	{
		log := in.Acme
		infos := []ctlsim.StepInfo{in}
		partial := false
		for _, l := range in.Logs {
			if strings.Contains(l, "syncing ") {
				partial = true
			}
		}
		want := refAcmeWanted(s.World, c.Params)
		var expect []string
		if !c.Params.NotLeader && !partial {
			for k := range want {
				expect = append(expect, "add "+k)
			}
		} else if !c.Params.NotLeader {
			for k := range want {
				if !prev[k] {
					expect = append(expect, "add "+k)
				}
			}
			for k := range prev {
				if !want[k] {
					expect = append(expect, "remove "+k)
				}
			}
		}
		if !c.Params.NotLeader {
			// the leader configures the signer on every update: the renewal window is the one of the current global config
			// (the window is only parsed when the account is configured: endpoint, emails, terms agreed)
			days := 30
			cm := s.World.Get(world.KConfigMap, world.GlobalCM)
			if cm != nil && cm.Data["acme-expiring"] != "" {
				days, _ = strconv.Atoi(cm.Data["acme-expiring"])
			}
			configured := cm != nil && cm.Data["acme-endpoint"] != "" && cm.Data["acme-emails"] != "" && cm.Data["acme-terms-agreed"] == "true"
			if got, n := s.Signer.Expiring(); configured && n > 0 && got != time.Duration(days)*24*time.Hour {
				return failf("C17:stale-renewal-window", "after batch %d: the signer works with a renewal window of %v, the global config asks for %d days\nhistory:\n%s", batch, got, days, describeBatches(c))
			}
		}
		got := append([]string{}, log...)
		sort.Strings(got)
		sort.Strings(expect)
		if len(expect) == 0 && len(want) > 0 && batch >= 0 {
			for _, in := range infos {
				for _, l := range in.Logs {
					if strings.Contains(l, "syncing ") && !strings.Contains(l, "syncing 0 host(s)") {
						*resyncUnchanged = true
					}
				}
			}
		}
		if strings.Join(got, "|") != strings.Join(expect, "|") {
			sig := "C17:queue-differs"
			if c.Params.NotLeader {
				sig = "C17:non-leader-enqueued"
			} else if len(got) > len(expect) {
				sig = "C17:unchanged-storage-re-enqueued"
			} else if len(got) < len(expect) {
				sig = "C17:storage-not-enqueued"
			}
			return failf(sig, "after batch %d (leader=%v): queue operations %v, the cluster state asks for %v\nhistory:\n%s", batch, !c.Params.NotLeader, got, expect, describeBatches(c))
		}
		return nil
	}
}

func init() {
	registerReplay("C17", execC17Queue)
	registerReplay("C17S", execC17Sign)
}

func TestC17Signer(t *testing.T) {
	runPropertyAs(t, "C17", "C17S", genC17Sign, execC17Sign)
}

func TestC17Queue(t *testing.T) {
	runProperty(t, "C17", genC17Queue, execC17Queue)
}
