package props

import (
	"fmt"
	"os"
	"path/filepath"
	"sort"
	"strings"
	"testing"

	"pgregory.net/rapid"

	"verifharness/ctlsim"
	"verifharness/simhap"
	"verifharness/world"
)

// C12 — a change is never lost to a transient failure: the next reconcile applies it.

// C12Fault is injected while one batch is reconciled.
type C12Fault struct {
	Kind   string `json:"kind"`   // "", file, cmd, reload
	Pick   int    `json:"pick"`   // file: index into the candidate list; cmd/reload: ordinal
	Mode   string `json:"mode"`   // cmd: refuse/drop/dropapp/notok; reload: fail/norel
	Repeat int    `json:"repeat"` // how many retries are faulted too (0 = only the first attempt)
}

// C12Case ...
type C12Case struct {
	Hist   HistCase   `json:"hist"`
	Faults []C12Fault `json:"faults"` // one per batch
	// Hold (reload queue mode, Hist.Params.ReloadQueue): the reload requested by the batch stays in the reload queue
	// while the next batch is reconciled (the queue is rate limited, or its worker waits for the lock)
	Hold []bool `json:"hold,omitempty"`
}

var c12Kinds = []string{
	world.KIngress, world.KIngress, world.KIngress, world.KEndpoints, world.KEndpoints, world.KService, world.KSecret, world.KConfigMap,
}

// c12GlobalKeys: global options whose change rewrites files of their own (custom responses: errorfiles and a Lua
// script), the backend sections (ssl-redirect-code) or only the main file (timeout-client)
var c12GlobalKeys = []annChoice{
	{"timeout-client", []string{"30s", "40s"}},
	{"ssl-redirect-code", []string{"301", "307"}},
	{"http-response-404", []string{"content-type: text/plain\n\n404 page one\n", "content-type: text/plain\n\n404 page two\n"}},
	{"http-response-503", []string{"503 Service Unavailable\ncontent-type: text/plain\n\nbusy\n", "503 Service Unavailable\ncontent-type: text/plain\n\nlater\n"}},
}

func genC12(t *rapid.T) C12Case {
	p := defaultProfile()
	p.Classes = false
	p.MissingRefs = true
	p.Avoid = []avoidRule{{Sig: sigDefBackJoins, Pred: gainsDefaultBackend}}
	p.GlobalCM = true
	p.GlobalKeys = c12GlobalKeys
	params := ctlsim.Params{Shards: rapid.SampledFrom([]int{0, 0, 2, 3}).Draw(t, "shards"), ReloadQueue: chanceT(t, "reloadqueue", 30)}
	params.EPSlices = chanceT(t, "epslices", 15)
	h := genHistory(t, p, params, c12Kinds, sizeScale(4, 8), 3)
	for i := range h.Split {
		h.Split[i] = -1
	}
	c := C12Case{Hist: h}
	for range h.Batches {
		f := C12Fault{}
		if chanceT(t, "faulty", 60) {
			f.Kind = rapid.SampledFrom([]string{"file", "file", "file", "cmd", "reload", "reload"}).Draw(t, "fkind")
			switch f.Kind {
			case "file":
				f.Pick = rapid.IntRange(0, 40).Draw(t, "fpick")
			case "cmd":
				f.Pick = rapid.IntRange(1, 6).Draw(t, "cmdord")
				f.Mode = rapid.SampledFrom([]string{simhap.FaultRefuse, simhap.FaultDrop, simhap.FaultDropApp, simhap.FaultNotOK}).Draw(t, "cmdmode")
			case "reload":
				f.Pick = 1
				// the new worker fails to start (show proc reports failed: 1), or the request itself fails: the
				// master socket resets the connection before reading it. A master that silently ignores `reload`
				// is not generated: closing the connection without a response is also what a successful reload
				// looks like to the client
				f.Mode = rapid.SampledFrom([]string{simhap.FaultFail, simhap.FaultFail, simhap.FaultReset}).Draw(t, "reloadmode")
			}
			f.Repeat = rapid.SampledFrom([]int{0, 0, 0, 1, 2}).Draw(t, "repeat")
		}
		c.Faults = append(c.Faults, f)
		if params.ReloadQueue {
			c.Hold = append(c.Hold, chanceT(t, "hold", 40))
		}
	}
	return c
}

// candidate files for a write fault: everything the previous step wrote plus the
// names a new host/backend/shard would create.
func c12Candidates(s *ctlsim.Sim) []string {
	set := map[string]bool{}
	for rel := range s.Files() {
		if strings.HasSuffix(rel, ".lua") || strings.Contains(rel, "spoe-") {
			continue
		}
		set[rel] = true
	}
	for _, n := range []string{
		"etc/haproxy/haproxy.cfg",
		"etc/haproxy/maps/_front_http_host__prefix.map", "etc/haproxy/maps/_front_http_host__begin.map", "etc/haproxy/maps/_front_http_host__exact.map",
		"etc/haproxy/maps/_front_https_host__prefix.map", "etc/haproxy/maps/_front_bind_crt.list", "etc/haproxy/maps/_front_defaulthost__begin.map",
	} {
		set[n] = true
	}
	for i := 0; i < s.P.Shards; i++ {
		set[fmt.Sprintf("etc/haproxy/haproxy5-backend%03d.cfg", i)] = true
	}
	var out []string
	for n := range set {
		out = append(out, n)
	}
	sort.Strings(out)
	return out
}

type poison struct {
	path    string
	hadFile bool
}

func poisonFile(s *ctlsim.Sim, rel string) *poison {
	p := &poison{path: filepath.Join(s.Dir, rel)}
	if st, err := os.Stat(p.path); err == nil && !st.IsDir() {
		p.hadFile = true
		_ = os.Rename(p.path, p.path+".orig")
	}
	_ = os.Mkdir(p.path, 0755)
	return p
}

func (p *poison) heal() {
	_ = os.Remove(p.path)
	if p.hadFile {
		_ = os.Rename(p.path+".orig", p.path)
	}
}

// injectFault arms the fault of one batch.
func injectFault(s *ctlsim.Sim, f C12Fault, active **poison) {
	switch f.Kind {
	case "file":
		cands := c12Candidates(s)
		*active = poisonFile(s, cands[f.Pick%len(cands)])
	case "cmd":
		s.Hap.SetFaults(map[int]string{f.Pick: f.Mode}, nil)
	case "reload":
		s.Hap.SetFaults(nil, map[int]string{1: f.Mode})
	default:
		s.Hap.SetFaults(nil, nil)
	}
}

// retryAfterFault plays the controller's own retry (the same request again, with no new
// event) until an attempt succeeds; the fault persists for f.Repeat retries and is then
// removed. Returns all the steps, the number of retries and whether the last one still failed.
func retryAfterFault(s *ctlsim.Sim, infos []ctlsim.StepInfo, f C12Fault, active **poison) ([]ctlsim.StepInfo, int, bool) {
	failed := false
	for _, in := range infos {
		if in.Err != nil {
			failed = true
		}
	}
	attempts := 0
	for failed && attempts < 6 {
		attempts++
		if attempts > f.Repeat {
			// the transient failure is over
			if *active != nil {
				(*active).heal()
				*active = nil
			}
			s.Hap.SetFaults(nil, nil)
		} else if f.Kind == "reload" {
			s.Hap.SetFaults(nil, map[int]string{1: f.Mode})
		} else if f.Kind == "cmd" {
			s.Hap.SetFaults(map[int]string{f.Pick: f.Mode}, nil)
		}
		last := infos[len(infos)-1]
		s.EnqueueRetry(last.FullReq)
		retry := s.Reconcile()
		failed = false
		for _, in := range retry {
			if in.Err != nil {
				failed = true
			}
		}
		infos = append(infos, retry...)
	}
	if *active != nil {
		(*active).heal()
		*active = nil
	}
	s.Hap.SetFaults(nil, nil)
	return infos, attempts, failed
}

func execC12(c C12Case) *Failure {
	st := getStats("C12")
	triggered, triggeredOnChange, cmdFaults, faultsSeen := 0, 0, 0, 0
	kindsHit := map[string]bool{}
	steps, held := 0, 0
	var active *poison
	var curFault C12Fault
	f := histRun2(c.Hist, func(s *ctlsim.Sim, batch int) {
		curFault = C12Fault{}
		if batch < len(c.Faults) {
			curFault = c.Faults[batch]
		}
		injectFault(s, curFault, &active)
		s.HoldReloads = batch >= 0 && batch < len(c.Hold) && c.Hold[batch]
		if s.HoldReloads {
			held++
		}
	}, func(s *ctlsim.Sim, batch int, infos []ctlsim.StepInfo) *Failure {
		if batch < 0 {
			steps += len(infos)
			if err := stepErrors(infos); err != nil {
				return failf("C12:update-error", "bootstrap failed without a fault: %v", err)
			}
			return nil
		}
		var attempts int
		var failed bool
		infos, attempts, failed = retryAfterFault(s, infos, curFault, &active)
		steps += len(infos)
		if attempts > 0 {
			triggered++
			kindsHit[curFault.Kind] = true
			for _, l := range infos[0].Logs {
				if strings.Contains(l, "syncing ") && !strings.Contains(l, "syncing 0 host(s) and 0 backend(s)") {
					triggeredOnChange++
					break
				}
			}
		}
		if failed {
			return failf("C12:retry-keeps-failing", "batch %d: the update still fails after the fault was removed and %d retries: %v", batch, attempts, infos[len(infos)-1].Err)
		}
		_, _, _, fh := s.Hap.Counters()
		cmdFaultHit := curFault.Kind == "cmd" && fh > faultsSeen
		faultsSeen = fh
		if cmdFaultHit {
			// a faulted runtime command must end in a reload (or in a reported failure and a retry)
			cmdFaults++
			kindsHit["cmd"] = true
		}
		queuedReloadFault := s.ReloadQ != nil && curFault.Kind == "reload"
		if attempts == 0 && !cmdFaultHit && !queuedReloadFault && batch != len(c.Hist.Batches)-1 {
			return nil
		}
		// the reload queue's worker runs whatever is (still) waiting
		s.HoldReloads = false
		s.RunReloads()
		// after the (successful) retry everything must have converged
		what := fmt.Sprintf("batch %d, fault %+v hit=%v, %d retries", batch, curFault, attempts > 0, attempts)
		if diff := runningVsFiles(s, false); len(diff) > 0 {
			sig := "C12:running-not-converged"
			if attempts > 0 {
				sig += ":" + curFault.Kind
			}
			return failf(sig, "%s: after the fault-free retry the running HAProxy still differs from the files:\n  %s\nlog of the last step:\n  %s\nhistory:\n%s", what, strings.Join(diff, "\n  "), strings.Join(infos[len(infos)-1].Logs, "\n  "), describeBatches(c.Hist))
		}
		if f, _ := compareWithFresh(s, "C12"); f != nil {
			if attempts > 0 {
				f.Signature = "C12:files-not-converged:" + curFault.Kind
			}
			f.Msg = fmt.Sprintf("%s: %s\nlog of the last step:\n  %s\nhistory:\n%s", what, f.Msg, strings.Join(infos[len(infos)-1].Logs, "\n  "), describeBatches(c.Hist))
			return f
		}
		// ... and the files hold exactly the state: nothing of a removed object is left in a file HAProxy loads
		if f := c05Compare(s); f != nil && attempts > 0 {
			f.Signature = "C12:files-not-exact:" + curFault.Kind + ":" + strings.TrimPrefix(f.Signature, "C05:")
			f.Msg = fmt.Sprintf("%s: %s\nlog of the last step:\n  %s\nhistory:\n%s", what, f.Msg, strings.Join(infos[len(infos)-1].Logs, "\n  "), describeBatches(c.Hist))
			return f
		}
		return nil
	})
	labels := histLabels(c.Hist)
	for k := range kindsHit {
		labels = append(labels, "fault-triggered:"+k)
	}
	if c.Hist.Params.ReloadQueue {
		labels = append(labels, "reload-queue")
	}
	if held > 0 {
		labels = append(labels, "reload-held-across-an-update")
	}
	st.Case(c, triggeredOnChange > 0, labels...)
	st.Count("reconcile_steps", steps)
	st.Count("faults_triggered", triggered)
	st.Count("command_faults_hit", cmdFaults)
	st.Count("faults_triggered_on_real_change", triggeredOnChange)
	return f
}

func init() { registerReplay("C12", execC12) }

func TestC12(t *testing.T) {
	runProperty(t, "C12", genC12, execC12)
}

// ---------- enumeration of the failure points of one update ----------

// C12EnumCase: a short fault-free history; every failure point of its LAST batch is then tried in turn.
type C12EnumCase struct {
	Hist HistCase `json:"hist"`
}

func genC12Enum(t *rapid.T) C12EnumCase {
	p := defaultProfile()
	p.Classes = false
	p.MissingRefs = true
	p.Avoid = []avoidRule{{Sig: sigDefBackJoins, Pred: gainsDefaultBackend}}
	p.GlobalCM = true
	p.GlobalKeys = c12GlobalKeys
	params := ctlsim.Params{Shards: rapid.SampledFrom([]int{0, 2, 3}).Draw(t, "shards")}
	h := genHistory(t, p, params, c12Kinds, 3, 3)
	for i := range h.Split {
		h.Split[i] = -1
	}
	return C12EnumCase{Hist: h}
}

func fileStamps(s *ctlsim.Sim) map[string]int64 {
	out := map[string]int64{}
	_ = filepath.Walk(s.CfgDir(), func(path string, info os.FileInfo, err error) error {
		if err != nil || info.IsDir() {
			return nil
		}
		rel, _ := filepath.Rel(s.Dir, path)
		out[rel] = info.ModTime().UnixNano()
		return nil
	})
	return out
}

// c12Prefix starts a controller and runs every batch but the last one, fault free.
func c12Prefix(h HistCase) (*ctlsim.Sim, error) {
	s, err := ctlsim.New(h.Params)
	if err != nil {
		panic(err)
	}
	steps, err := s.Bootstrap(h.Init)
	if err != nil {
		panic(fmt.Sprintf("bootstrap: %v", err))
	}
	if e := stepErrors(steps); e != nil {
		s.Close()
		return nil, e
	}
	for i := 0; i < len(h.Batches)-1; i++ {
		if err := s.Apply(h.Batches[i]); err != nil {
			panic(err)
		}
		if e := stepErrors(s.Reconcile()); e != nil {
			s.Close()
			return nil, e
		}
	}
	return s, nil
}

func execC12Enum(c C12EnumCase) *Failure {
	st := getStats("C12")
	h := c.Hist
	if len(h.Batches) == 0 {
		st.Case(c, false, "enumerated")
		return nil
	}
	last := h.Batches[len(h.Batches)-1]
	// pass 1: which files does the last update write, how many commands and reloads does it need
	s, err := c12Prefix(h)
	if err != nil {
		return failf("C12:update-error", "fault-free prefix failed: %v", err)
	}
	before := fileStamps(s)
	if err := s.Apply(last); err != nil {
		panic(err)
	}
	infos := s.Reconcile()
	if e := stepErrors(infos); e != nil {
		s.Close()
		return failf("C12:update-error", "fault-free update failed: %v", e)
	}
	after := fileStamps(s)
	cmds, reloads := 0, 0
	for _, in := range infos {
		cmds += in.Cmds
		reloads += in.Reloads
	}
	s.Close()
	type point struct {
		kind, file string
		ord        int
		mode       string
	}
	var points []point
	var written []string
	for f, t := range after {
		if strings.HasSuffix(f, ".lua") || strings.Contains(f, "spoe-") {
			continue
		}
		if bt, ok := before[f]; !ok || bt != t {
			written = append(written, f)
		}
	}
	sort.Strings(written)
	for _, f := range written {
		points = append(points, point{kind: "file", file: f})
	}
	for i := 1; i <= cmds && i <= 6; i++ {
		points = append(points, point{kind: "cmd", ord: i, mode: []string{simhap.FaultRefuse, simhap.FaultDrop, simhap.FaultDropApp, simhap.FaultNotOK}[i%4]})
	}
	if reloads > 0 {
		points = append(points, point{kind: "reload", ord: 1, mode: simhap.FaultFail}, point{kind: "reload", ord: 1, mode: simhap.FaultReset})
	}
	failedUpdates := 0
	for pi, pt := range points {
		s, err := c12Prefix(h)
		if err != nil {
			return failf("C12:update-error", "fault-free prefix failed: %v", err)
		}
		fault := C12Fault{Kind: pt.kind, Pick: pt.ord, Mode: pt.mode, Repeat: pi % 2}
		var active *poison
		switch pt.kind {
		case "file":
			active = poisonFile(s, pt.file)
		default:
			injectFault(s, fault, &active)
		}
		if err := s.Apply(last); err != nil {
			panic(err)
		}
		infos := s.Reconcile()
		infos, attempts, failed := retryAfterFault(s, infos, fault, &active)
		what := fmt.Sprintf("failure point %d/%d of the last update (%s %s%d %s, persisting for %d retries), %d retries", pi+1, len(points), pt.kind, pt.file, pt.ord, pt.mode, fault.Repeat, attempts)
		var f *Failure
		switch {
		case failed:
			f = failf("C12:retry-keeps-failing", "%s: the update still fails after the fault was removed: %v", what, infos[len(infos)-1].Err)
		default:
			if attempts > 0 {
				failedUpdates++
			} else if pt.kind == "file" {
				// the file was written by the fault-free run, so the write must have failed and must have been reported
				f = failf("C12:failure-not-reported:file", "%s: writing %s was made to fail but the update reported success", what, pt.file)
			}
			if f == nil {
				if diff := runningVsFiles(s, false); len(diff) > 0 {
					f = failf("C12:running-not-converged:"+pt.kind, "%s: the running HAProxy differs from the files:\n  %s", what, strings.Join(diff, "\n  "))
				}
			}
			if f == nil {
				if ff, _ := compareWithFresh(s, "C12"); ff != nil {
					ff.Signature = "C12:files-not-converged:" + pt.kind
					ff.Msg = what + ": " + ff.Msg
					f = ff
				}
			}
			if f == nil {
				if ff := c05Compare(s); ff != nil {
					ff.Signature = "C12:files-not-exact:" + pt.kind + ":" + strings.TrimPrefix(ff.Signature, "C05:")
					ff.Msg = what + ": " + ff.Msg
					f = ff
				}
			}
		}
		if f != nil {
			f.Msg += "\nlog of the last step:\n  " + strings.Join(infos[len(infos)-1].Logs, "\n  ") + "\nhistory:\n" + describeBatches(h)
			s.Close()
			return f
		}
		s.Close()
	}
	st.Case(c, failedUpdates >= 3, "enumerated", fmt.Sprintf("failure-points=%d", min(len(points)/4*4, 20)))
	st.Count("failure_points_enumerated", len(points))
	st.Count("failure_points_that_failed_the_update", failedUpdates)
	return nil
}

func init() { registerReplay("C12E", execC12Enum) }

func TestC12Enumerate(t *testing.T) {
	runPropertyAs(t, "C12", "C12E", genC12Enum, execC12Enum)
}
