package props

import (
	"fmt"
	"os"
	"path/filepath"
	"strings"
	"testing"

	"pgregory.net/rapid"

	"verifharness/ctlsim"
	"verifharness/hapcfg"
	"verifharness/world"
)

// C09 — cross-namespace isolation.

// C09Case: a reference site in namespace a pointing at an object of namespace b.
type C09Case struct {
	Site      string            `json:"site"`      // auth-tls-secret, secure-crt-secret, secure-verify-ca-secret, auth-secret, auth-url
	Form      string            `json:"form"`      // plain (b/name), secret (secret://b/name)
	OnService bool              `json:"onService"` // annotation placed on the Service instead of the Ingress
	Settings  map[string]string `json:"settings"`  // cross-namespace-* keys
	AllowCLI  bool              `json:"allowCLI"`  // --allow-cross-namespace
	Relation  string            `json:"relation"`  // R1 (foreign object absent), R2 (dangling foreign name)
	BUses     bool              `json:"bUses"`     // namespace b uses the object itself
	Shards    int               `json:"shards"`
}

var c09Sites = []string{"auth-tls-secret", "secure-crt-secret", "secure-verify-ca-secret", "auth-secret", "auth-url"}

// kind (global key) that opens each site, per the documentation.
var c09KindOf = map[string]string{
	"auth-tls-secret":         "cross-namespace-secrets-ca",
	"secure-verify-ca-secret": "cross-namespace-secrets-ca",
	"secure-crt-secret":       "cross-namespace-secrets-crt",
	"auth-secret":             "cross-namespace-secrets-passwd",
	"auth-url":                "cross-namespace-services",
}

var c09Keys = []string{"cross-namespace-secrets-ca", "cross-namespace-secrets-crt", "cross-namespace-secrets-passwd", "cross-namespace-services"}

func genC09(t *rapid.T) C09Case {
	c := C09Case{
		Site:      rapid.SampledFrom(c09Sites).Draw(t, "site"),
		Form:      rapid.SampledFrom([]string{"plain", "plain", "secret"}).Draw(t, "form"),
		OnService: rapid.Bool().Draw(t, "onsvc"),
		AllowCLI:  chanceT(t, "cli", 15),
		Relation:  rapid.SampledFrom([]string{"R1", "R2", "R2"}).Draw(t, "rel"),
		BUses:     rapid.Bool().Draw(t, "buses"),
		Shards:    rapid.SampledFrom([]int{0, 0, 2}).Draw(t, "shards"),
		Settings:  map[string]string{},
	}
	for _, k := range c09Keys {
		v := rapid.SampledFrom([]string{"", "deny", "deny", "allow", "Allow", "yes", "true"}).Draw(t, k)
		if v != "" {
			c.Settings[k] = v
		}
	}
	if c.Site == "auth-url" {
		c.Form = "plain"
	}
	if c.Relation == "R1" {
		c.BUses = false // the foreign object must be otherwise unused to be removable
	}
	return c
}

func (c C09Case) allowed() bool {
	kind := c09KindOf[c.Site]
	if strings.ToLower(c.Settings[kind]) == "allow" {
		return true
	}
	return c.AllowCLI && kind != "cross-namespace-services"
}

// c09World builds the cluster. variant: "ref" (reference to the existing foreign
// object), "absent" (same reference, object removed), "dangling" (reference to a
// name that does not exist in b).
func c09World(c C09Case, variant string) []*world.Obj {
	cmData := map[string]string{"external-has-lua": "true"}
	for k, v := range c.Settings {
		cmData[k] = v
	}
	objs := []*world.Obj{
		{Kind: world.KIngressClass, Name: world.OurClass, Controller: world.ControllerName},
		{Kind: world.KConfigMap, NS: world.CtlNS, Name: "haproxy-ingress", Data: cmData},
	}
	for _, ns := range []string{"a", "b"} {
		for _, svc := range []string{"s1", "s2"} {
			objs = append(objs,
				&world.Obj{Kind: world.KService, NS: ns, Name: svc, Ports: []world.SvcPort{{Name: "http", Port: 80, Target: "8000"}}},
				&world.Obj{Kind: world.KEndpoints, NS: ns, Name: svc, Subsets: []world.Subset{{Ready: []world.Addr{{IP: ipFor(ns, svc, 1)}}, Ports: []world.SvcPort{{Name: "http", Port: 8000}}}}})
		}
	}
	foreignName := map[string]string{
		"auth-tls-secret": "ca1", "secure-verify-ca-secret": "ca1", "secure-crt-secret": "t1", "auth-secret": "pw", "auth-url": "s2",
	}[c.Site]
	foreign := map[string]*world.Obj{
		"ca1": {Kind: world.KSecret, NS: "b", Name: "ca1", SecretKind: "ca", Cert: 1},
		"t1":  {Kind: world.KSecret, NS: "b", Name: "t1", SecretKind: "tls", Cert: 4},
		"pw":  {Kind: world.KSecret, NS: "b", Name: "pw", SecretKind: "auth", Auth: "bob::secret\n"},
	}
	for n, o := range foreign {
		if variant == "absent" && n == foreignName {
			continue
		}
		objs = append(objs, o)
	}
	// namespace b's own use of its objects
	if c.BUses {
		bi := &world.Obj{Kind: world.KIngress, NS: "b", Name: "ib", ClassName: sp(world.OurClass), Created: 1,
			Ann:   map[string]string{"auth-type": "basic", "auth-secret": "pw", "auth-tls-secret": "ca1"},
			Rules: []world.Rule{{Host: "hb.local", Paths: []world.Path{{Path: "/", Type: "Prefix", Svc: "s2", Port: "80"}}}},
			TLS:   []world.TLS{{Hosts: []string{"hb.local"}, Secret: "t1"}}}
		objs = append(objs, bi)
	}
	name := foreignName
	if variant == "dangling" {
		name = "nothere"
	}
	ref := "b/" + name
	if c.Form == "secret" {
		ref = "secret://b/" + name
	}
	ann := map[string]string{}
	switch c.Site {
	case "auth-tls-secret":
		ann["auth-tls-secret"] = ref
	case "secure-crt-secret":
		ann["secure-backends"] = "true"
		ann["secure-crt-secret"] = ref
	case "secure-verify-ca-secret":
		ann["secure-backends"] = "true"
		ann["secure-verify-ca-secret"] = ref
	case "auth-secret":
		ann["auth-type"] = "basic"
		ann["auth-secret"] = ref
	case "auth-url":
		ann["auth-url"] = "svc://" + ref + ":8000/auth"
	}
	ia := &world.Obj{Kind: world.KIngress, NS: "a", Name: "ia", ClassName: sp(world.OurClass), Created: 2,
		Rules: []world.Rule{{Host: "ha.local", Paths: []world.Path{{Path: "/", Type: "Prefix", Svc: "s1", Port: "80"}}}},
		TLS:   []world.TLS{{Hosts: []string{"ha.local"}, Secret: ""}}}
	if c.OnService && c.Site != "auth-tls-secret" { // auth-tls is host scoped: ingress only
		for _, o := range objs {
			if o.Kind == world.KService && o.NS == "a" && o.Name == "s1" {
				o.Ann = ann
			}
		}
	} else {
		ia.Ann = ann
	}
	if c.Site == "auth-url" && variant == "absent" {
		// the foreign object of this site is the Service b/s2 (and its endpoints)
		var keep []*world.Obj
		for _, o := range objs {
			if o.NS == "b" && o.Name == "s2" && (o.Kind == world.KService || o.Kind == world.KEndpoints) {
				continue
			}
			keep = append(keep, o)
		}
		objs = keep
	}
	return append(objs, ia)
}

func c09Run(c C09Case, variant string) (*simResult, error) {
	objs := c09World(c, variant)
	s, steps, err := freshSim(ctlsim.Params{AllowCrossNS: c.AllowCLI, Shards: c.Shards}, objs)
	if err != nil {
		return nil, err
	}
	defer s.Close()
	if e := stepErrors(steps); e != nil {
		return nil, e
	}
	reqs, snis := requestsFor(objs)
	nf, _ := simNF(s, reqs, snis)
	r := &simResult{nf: nf}
	for _, d := range []string{"/var/lib/haproxy/crt", "/var/lib/haproxy/cacerts", "/var/lib/haproxy/crl"} {
		files, _ := filepath.Glob(s.Dir + d + "/*")
		for _, f := range files {
			r.secretFiles = append(r.secretFiles, filepath.Base(f))
		}
	}
	for _, st := range steps {
		r.logs = append(r.logs, st.Logs...)
	}
	return r, nil
}

type simResult struct {
	nf          *hapcfg.NF
	secretFiles []string
	logs        []string
}

func execC09(c C09Case) *Failure {
	st := getStats("C09")
	other := "dangling"
	if c.Relation == "R1" {
		other = "absent"
	}
	refRes, err := c09Run(c, "ref")
	if err != nil {
		return failf("C09:update-error", "%v", err)
	}
	othRes, err := c09Run(c, other)
	if err != nil {
		return failf("C09:update-error", "%v", err)
	}
	diff := refRes.nf.Diff(othRes.nf)
	allowed := c.allowed()
	labels := []string{"site=" + c.Site, "relation=" + c.Relation, fmt.Sprintf("expected-allowed=%v", allowed)}
	if c.OnService {
		labels = append(labels, "on-service")
	}
	if c.BUses {
		labels = append(labels, "foreign-object-used-by-its-owner")
	}
	if allowed {
		// control: with the kind allowed the reference must take effect, else the case shows nothing
		took := len(diff) > 0
		if took {
			labels = append(labels, "allow-control-took-effect")
		}
		st.Case(c, false, labels...)
		st.Count("allow_controls", 1)
		if took {
			st.Count("allow_controls_effective", 1)
		}
		return nil
	}
	st.Case(c, true, labels...)
	if len(diff) > 0 {
		sig := "C09:foreign-object-influences-config:" + c.Site
		return failf(sig, "cross-namespace kind %s is denied (settings %v, --allow-cross-namespace=%v), yet the configuration written for namespace a's reference %q (%s) differs between the world where the foreign object exists and the one where it is %s:\n%s",
			c09KindOf[c.Site], c.Settings, c.AllowCLI, c.Site, c.Form, other, strings.Join(diff, "\n"))
	}
	if c.Relation == "R1" {
		// the foreign secret must not even be read: reading writes a PEM file
		before := map[string]bool{}
		for _, f := range othRes.secretFiles {
			before[f] = true
		}
		for _, f := range refRes.secretFiles {
			if !before[f] && strings.Contains(f, "b_") {
				return failf("C09:foreign-secret-read:"+c.Site, "denied cross-namespace reference %q made the controller read the foreign secret: file %s was written", c.Site, f)
			}
		}
	}
	_ = os.Getenv
	return nil
}

func init() { registerReplay("C09", execC09) }

func TestC09(t *testing.T) {
	runProperty(t, "C09", genC09, execC09)
}
