package props

import (
	"fmt"
	"os"
	"path/filepath"
	"sort"
	"strings"
	"testing"

	"pgregory.net/rapid"

	"verifharness/ctlsim"
	"verifharness/hapcfg"
	"verifharness/world"
)

// C09 — cross-namespace isolation.

// C09Case: a reference site in namespace a pointing at an object of namespace b.
type C09Case struct {
	Site      string            `json:"site"`      // auth-tls-secret, secure-crt-secret, secure-verify-ca-secret, auth-secret, auth-url
	Form      string            `json:"form"`      // plain (b/name), secret (secret://b/name)
	OnService bool              `json:"onService"` // annotation placed on the Service instead of the Ingress
	Settings  map[string]string `json:"settings"`  // cross-namespace-* keys
	AllowCLI  bool              `json:"allowCLI"`  // --allow-cross-namespace
	Relation  string            `json:"relation"`  // R1 (foreign object absent), R2 (dangling foreign name)
	BUses     bool              `json:"bUses"`     // namespace b uses the object itself
	Shards    int               `json:"shards"`
	// Prior holds earlier contents of the cross-namespace keys: the controller starts with Prior[0]
	// and the ConfigMap is then updated step by step up to Settings (the permission bits are state
	// recomputed on every global config parse; only the current ones may count).
	Prior []map[string]string `json:"prior,omitempty"`
	// Touch: after the last global change namespace a's referencing object is updated once more
	// (an unrelated annotation), so it is also parsed by a partial sync.
	Touch bool `json:"touch,omitempty"`
	// OwnerFirst: namespace b's own ingress is older than a's (parsed first) or newer.
	OwnerFirst bool `json:"ownerFirst,omitempty"`
	// Swap: the reader lives in namespace b and the foreign object in a (backends and userlists are built in
	// name order, so which namespace sorts first decides who creates a shared derived object).
	Swap bool `json:"swap,omitempty"`
	// Similar: the two namespaces are named "a" and "ab" - one name is the beginning of the other (app / app-prod)
	Similar bool `json:"similar,omitempty"`
}

// namespaces of the referencing object (reader) and of the foreign object (owner)
func (c C09Case) nss() (reader, owner string) {
	other := "b"
	if c.Similar {
		other = "ab"
	}
	if c.Swap {
		return other, "a"
	}
	return "a", other
}

var c09Sites = []string{"auth-tls-secret", "secure-crt-secret", "secure-verify-ca-secret", "auth-secret", "auth-url", "tls-secret", "gateway-certref", "gateway-backendref"}

// kind (global key) that opens each site, per the documentation.
var c09KindOf = map[string]string{
	"auth-tls-secret":         "cross-namespace-secrets-ca",
	"secure-verify-ca-secret": "cross-namespace-secrets-ca",
	"secure-crt-secret":       "cross-namespace-secrets-crt",
	"auth-secret":             "cross-namespace-secrets-passwd",
	"auth-url":                "cross-namespace-services",
	"tls-secret":              "cross-namespace-secrets-crt",
	"gateway-certref":         "cross-namespace-secrets-crt",
	"gateway-backendref":      "cross-namespace-services",
}

var c09Keys = []string{"cross-namespace-secrets-ca", "cross-namespace-secrets-crt", "cross-namespace-secrets-passwd", "cross-namespace-services"}

func genC09(t *rapid.T) C09Case {
	c := C09Case{
		Site:      rapid.SampledFrom(c09Sites).Draw(t, "site"),
		Form:      rapid.SampledFrom([]string{"plain", "plain", "secret"}).Draw(t, "form"),
		OnService: rapid.Bool().Draw(t, "onsvc"),
		AllowCLI:  chanceT(t, "cli", 15),
		Relation:  rapid.SampledFrom([]string{"R1", "R2", "R2"}).Draw(t, "rel"),
		BUses:     rapid.Bool().Draw(t, "buses"),
		Shards:    rapid.SampledFrom([]int{0, 0, 2}).Draw(t, "shards"),
		Settings:  map[string]string{},
	}
	for _, k := range c09Keys {
		v := rapid.SampledFrom([]string{"", "deny", "deny", "allow", "Allow", "yes", "true"}).Draw(t, k)
		if v != "" {
			c.Settings[k] = v
		}
	}
	if c.Site == "gateway-backendref" {
		// the namespace field is not honoured at all (the Service of that name in the route's own namespace is used):
		// only "the foreign Service exists or not" is a meaningful pair of worlds, a dangling name changes the local name too
		c.Relation = "R1"
	}
	if c.Site == "auth-url" || c.Site == "gateway-certref" || c.Site == "gateway-backendref" {
		c.Form = "plain"
	}
	np := rapid.SampledFrom([]int{0, 0, 1, 2}).Draw(t, "nprior")
	for i := 0; i < np; i++ {
		m := map[string]string{}
		for _, k := range c09Keys {
			v := rapid.SampledFrom([]string{"", "deny", "allow", "allow"}).Draw(t, "prior-"+k)
			if v != "" {
				m[k] = v
			}
		}
		c.Prior = append(c.Prior, m)
	}
	c.Touch = chanceT(t, "touch", 30)
	c.OwnerFirst = rapid.Bool().Draw(t, "ownerfirst")
	c.Swap = chanceT(t, "swap", 40)
	c.Similar = chanceT(t, "similar", 25)
	if c.Relation == "R1" {
		c.BUses = false // the foreign object must be otherwise unused to be removable
	}
	return c
}

func (c C09Case) allowed() bool {
	kind := c09KindOf[c.Site]
	if strings.ToLower(c.Settings[kind]) == "allow" {
		return true
	}
	return c.AllowCLI && kind != "cross-namespace-services"
}

// c09World builds the cluster. variant: "ref" (reference to the existing foreign
// object), "absent" (same reference, object removed), "dangling" (reference to a
// name that does not exist in b).
func c09ConfigMap(settings map[string]string) *world.Obj {
	cmData := map[string]string{"external-has-lua": "true"}
	for k, v := range settings {
		cmData[k] = v
	}
	return &world.Obj{Kind: world.KConfigMap, NS: world.CtlNS, Name: "haproxy-ingress", Data: cmData}
}

func c09World(c C09Case, variant string) []*world.Obj {
	rd, ow := c.nss()
	first := c.Settings
	if len(c.Prior) > 0 {
		first = c.Prior[0]
	}
	objs := []*world.Obj{
		{Kind: world.KIngressClass, Name: world.OurClass, Controller: world.ControllerName},
		c09ConfigMap(first),
	}
	for _, ns := range []string{rd, ow} {
		for _, svc := range []string{"s1", "s2"} {
			objs = append(objs,
				&world.Obj{Kind: world.KService, NS: ns, Name: svc, Ports: []world.SvcPort{{Name: "http", Port: 80, Target: "8000"}}},
				&world.Obj{Kind: world.KEndpoints, NS: ns, Name: svc, Subsets: []world.Subset{{Ready: []world.Addr{{IP: ipFor(ns, svc, 1)}}, Ports: []world.SvcPort{{Name: "http", Port: 8000}}}}})
		}
	}
	foreignName := map[string]string{
		"auth-tls-secret": "ca1", "secure-verify-ca-secret": "ca1", "secure-crt-secret": "t1", "auth-secret": "pw", "auth-url": "s2",
		"tls-secret": "t1", "gateway-certref": "t1", "gateway-backendref": "s2",
	}[c.Site]
	foreign := map[string]*world.Obj{
		"ca1": {Kind: world.KSecret, NS: ow, Name: "ca1", SecretKind: "ca", Cert: 1},
		"t1":  {Kind: world.KSecret, NS: ow, Name: "t1", SecretKind: "tls", Cert: 4},
		"pw":  {Kind: world.KSecret, NS: ow, Name: "pw", SecretKind: "auth", Auth: "bob::secret\n"},
	}
	for n, o := range foreign {
		if variant == "absent" && n == foreignName {
			continue
		}
		objs = append(objs, o)
	}
	// namespace b's own use of its objects
	if c.BUses {
		created := 3
		if c.OwnerFirst {
			created = 1
		}
		bi := &world.Obj{Kind: world.KIngress, NS: ow, Name: "ib", ClassName: sp(world.OurClass), Created: created,
			Ann:   map[string]string{"auth-type": "basic", "auth-secret": "pw", "auth-tls-secret": "ca1"},
			Rules: []world.Rule{{Host: "hb.local", Paths: []world.Path{{Path: "/", Type: "Prefix", Svc: "s2", Port: "80"}}}},
			TLS:   []world.TLS{{Hosts: []string{"hb.local"}, Secret: "t1"}}}
		objs = append(objs, bi)
	}
	name := foreignName
	if variant == "dangling" {
		name = "nothere"
	}
	ref := ow + "/" + name
	if c.Form == "secret" {
		ref = "secret://" + ow + "/" + name
	}
	ann := map[string]string{}
	switch c.Site {
	case "auth-tls-secret":
		ann["auth-tls-secret"] = ref
	case "secure-crt-secret":
		ann["secure-backends"] = "true"
		ann["secure-crt-secret"] = ref
	case "secure-verify-ca-secret":
		ann["secure-backends"] = "true"
		ann["secure-verify-ca-secret"] = ref
	case "auth-secret":
		ann["auth-type"] = "basic"
		ann["auth-secret"] = ref
	case "auth-url":
		ann["auth-url"] = "svc://" + ref + ":8000/auth"
	}
	ia := &world.Obj{Kind: world.KIngress, NS: rd, Name: "ia", ClassName: sp(world.OurClass), Created: 2,
		Rules: []world.Rule{{Host: "ha.local", Paths: []world.Path{{Path: "/", Type: "Prefix", Svc: "s1", Port: "80"}}}},
		TLS:   []world.TLS{{Hosts: []string{"ha.local"}, Secret: ""}}}
	switch c.Site {
	case "tls-secret":
		ia.TLS[0].Secret = ref
	case "gateway-certref":
		// a Gateway of namespace a whose https listener names the certificate of namespace b
		objs = append(objs,
			&world.Obj{Kind: world.KGatewayClass, Name: "ours", Controller: world.ControllerName},
			&world.Obj{Kind: world.KGateway, NS: rd, Name: "gw", GW: &world.GatewaySpec{Class: "ours", Listeners: []world.Listener{
				{Name: "https", Hostname: sp("hg.local"), Port: 443, Protocol: "HTTPS", TLSMode: "Terminate", CertRefs: []string{ref}, From: "Same"}}}},
			&world.Obj{Kind: world.KHTTPRoute, NS: rd, Name: "rt", Created: 2, RT: &world.RouteSpec{
				Parents: []world.ParentRef{{Name: "gw"}}, Hostnames: []string{"hg.local"},
				Rules: []world.RouteRule{{Matches: []world.Match{{Type: "PathPrefix", Value: "/"}}, Backends: []world.BackRef{{Name: "s1", Port: ip(80)}}}}}})
	}
	if c.Site == "gateway-backendref" {
		// an HTTPRoute of namespace a whose backendRef names, with the optional namespace field, a Service of namespace b
		objs = append(objs,
			&world.Obj{Kind: world.KGatewayClass, Name: "ours", Controller: world.ControllerName},
			&world.Obj{Kind: world.KGateway, NS: rd, Name: "gw", GW: &world.GatewaySpec{Class: "ours", Listeners: []world.Listener{
				{Name: "http", Hostname: sp("hg.local"), Port: 80, Protocol: "HTTP", From: "Same"}}}},
			&world.Obj{Kind: world.KHTTPRoute, NS: rd, Name: "rt", Created: 2, RT: &world.RouteSpec{
				Parents: []world.ParentRef{{Name: "gw"}}, Hostnames: []string{"hg.local"},
				Rules: []world.RouteRule{{Matches: []world.Match{{Type: "PathPrefix", Value: "/"}}, Backends: []world.BackRef{{Name: name, Namespace: ow, Port: ip(80)}}}}}})
	}
	if c.OnService && c.Site != "auth-tls-secret" { // auth-tls is host scoped: ingress only
		for _, o := range objs {
			if o.Kind == world.KService && o.NS == rd && o.Name == "s1" {
				o.Ann = ann
			}
		}
	} else {
		ia.Ann = ann
	}
	if (c.Site == "auth-url" || c.Site == "gateway-backendref") && variant == "absent" {
		// the foreign object of this site is the Service b/s2 (and its endpoints)
		var keep []*world.Obj
		for _, o := range objs {
			if o.NS == ow && o.Name == "s2" && (o.Kind == world.KService || o.Kind == world.KEndpoints) {
				continue
			}
			keep = append(keep, o)
		}
		objs = keep
	}
	return append(objs, ia)
}

func ip(i int) *int { return &i }

func c09Run(c C09Case, variant string) (*simResult, error) {
	objs := c09World(c, variant)
	s, steps, err := freshSim(ctlsim.Params{AllowCrossNS: c.AllowCLI, Shards: c.Shards, Gateway: c.Site == "gateway-certref" || c.Site == "gateway-backendref"}, objs)
	if err != nil {
		return nil, err
	}
	defer s.Close()
	if e := stepErrors(steps); e != nil {
		return nil, e
	}
	// the global ConfigMap reaches the settings under test through its earlier contents
	if len(c.Prior) > 0 {
		for _, settings := range append(append([]map[string]string{}, c.Prior[1:]...), c.Settings) {
			if err := s.Apply([]world.Op{{Op: "update", Obj: c09ConfigMap(settings)}}); err != nil {
				return nil, err
			}
			more := s.Reconcile()
			if e := stepErrors(more); e != nil {
				return nil, e
			}
			steps = append(steps, more...)
		}
	}
	rd, ow := c.nss()
	_ = ow
	if c.Touch {
		for _, o := range s.World.List() {
			if o.NS == rd && ((o.Kind == world.KIngress && o.Name == "ia") || (o.Kind == world.KService && o.Name == "s1" && c.OnService)) {
				n := o.Clone()
				if n.Ann == nil {
					n.Ann = map[string]string{}
				}
				n.Ann["timeout-server"] = "33s"
				if err := s.Apply([]world.Op{{Op: "update", Obj: n}}); err != nil {
					return nil, err
				}
				more := s.Reconcile()
				if e := stepErrors(more); e != nil {
					return nil, e
				}
				steps = append(steps, more...)
			}
		}
	}
	reqs, snis := requestsFor(objs)
	if c.Site == "gateway-certref" {
		reqs = append(reqs, hapcfg.Request{Host: "hg.local", Path: "/", HTTPS: true, SNI: "hg.local"}, hapcfg.Request{Host: "hg.local", Path: "/"})
		snis = append(snis, "hg.local")
	}
	if c.Site == "gateway-backendref" {
		reqs = append(reqs, hapcfg.Request{Host: "hg.local", Path: "/"})
	}
	nf, _ := simNF(s, reqs, snis)
	r := &simResult{nf: nf, files: map[string]string{}}
	// the literal content of every file HAProxy loads (cfg files, maps, lists), temp dir normalised
	for rel, content := range s.Files() {
		if strings.HasSuffix(rel, ".lua") || strings.Contains(rel, "spoe") {
			continue
		}
		// comments and blank lines are not configuration: a shard file holding only the header (its last
		// backend left while the kind was still allowed) is the same as a file that was never written
		var keep []string
		for _, l := range strings.Split(strings.ReplaceAll(content, s.Dir, "$D"), "\n") {
			if t := strings.TrimSpace(l); t != "" && !strings.HasPrefix(t, "#") {
				keep = append(keep, l)
			}
		}
		if len(keep) > 0 {
			r.files[rel] = strings.Join(keep, "\n")
		}
	}
	for _, d := range []string{"/var/lib/haproxy/crt", "/var/lib/haproxy/cacerts", "/var/lib/haproxy/crl"} {
		files, _ := filepath.Glob(s.Dir + d + "/*")
		for _, f := range files {
			r.secretFiles = append(r.secretFiles, filepath.Base(f))
		}
	}
	for _, st := range steps {
		r.logs = append(r.logs, st.Logs...)
	}
	return r, nil
}

type simResult struct {
	files       map[string]string
	nf          *hapcfg.NF
	secretFiles []string
	logs        []string
}

func execC09(c C09Case) *Failure {
	st := getStats("C09")
	other := "dangling"
	if c.Relation == "R1" {
		other = "absent"
	}
	refRes, err := c09Run(c, "ref")
	if err != nil {
		return failf("C09:update-error", "%v", err)
	}
	othRes, err := c09Run(c, other)
	if err != nil {
		return failf("C09:update-error", "%v", err)
	}
	diff := refRes.nf.Diff(othRes.nf)
	allowed := c.allowed()
	labels := []string{"site=" + c.Site, "relation=" + c.Relation, fmt.Sprintf("expected-allowed=%v", allowed)}
	for _, pr := range c.Prior {
		if strings.ToLower(pr[c09KindOf[c.Site]]) == "allow" && !allowed {
			labels = append(labels, "allowed-earlier-denied-now")
			break
		}
	}
	if c.Touch {
		labels = append(labels, "partial-sync-after")
	}
	if c.OnService {
		labels = append(labels, "on-service")
	}
	if c.BUses {
		labels = append(labels, "foreign-object-used-by-its-owner")
	}
	if allowed {
		// control: with the kind allowed the reference must take effect, else the case shows nothing
		took := len(diff) > 0
		if took {
			labels = append(labels, "allow-control-took-effect")
		}
		st.Case(c, false, labels...)
		st.Count("allow_controls", 1)
		if took {
			st.Count("allow_controls_effective", 1)
		}
		return nil
	}
	st.Case(c, true, labels...)
	if len(diff) > 0 {
		sig := "C09:foreign-object-influences-config:" + c.Site
		return failf(sig, "cross-namespace kind %s is denied (settings %v, --allow-cross-namespace=%v), yet the configuration written for namespace a's reference %q (%s) differs between the world where the foreign object exists and the one where it is %s:\n%s",
			c09KindOf[c.Site], c.Settings, c.AllowCLI, c.Site, c.Form, other, strings.Join(diff, "\n"))
	}
	// "identical": not only the behaviour, also nothing of the foreign object may appear in a written file
	// (eg a whole backend section with the foreign Service's servers that no rule reaches)
	var names []string
	for rel := range refRes.files {
		names = append(names, rel)
	}
	for rel := range othRes.files {
		if _, ok := refRes.files[rel]; !ok {
			names = append(names, rel)
		}
	}
	sort.Strings(names)
	for _, rel := range names {
		a, b := refRes.files[rel], othRes.files[rel]
		if a == b {
			continue
		}
		var da, db []string
		inB := map[string]bool{}
		for _, l := range strings.Split(b, "\n") {
			inB[l] = true
		}
		inA := map[string]bool{}
		for _, l := range strings.Split(a, "\n") {
			inA[l] = true
			if !inB[l] {
				da = append(da, l)
			}
		}
		for _, l := range strings.Split(b, "\n") {
			if !inA[l] {
				db = append(db, l)
			}
		}
		if len(da) > 12 {
			da = da[:12]
		}
		if len(db) > 12 {
			db = db[:12]
		}
		return failf("C09:foreign-object-changes-written-files:"+c.Site, "cross-namespace kind %s is denied (settings %v, --allow-cross-namespace=%v), the behaviour is the same, yet file %s differs between the world where the foreign object exists and the one where it is %s:\n  only with the foreign object:\n    %s\n  only without it:\n    %s",
			c09KindOf[c.Site], c.Settings, c.AllowCLI, rel, other, strings.Join(da, "\n    "), strings.Join(db, "\n    "))
	}
	if c.Relation == "R1" && len(c.Prior) == 0 {
		// the foreign secret must not even be read: reading writes a PEM file
		// (only when the kind was never allowed: files written while it was allowed stay on disk)
		before := map[string]bool{}
		for _, f := range othRes.secretFiles {
			before[f] = true
		}
		for _, f := range refRes.secretFiles {
			if _, ow := c.nss(); !before[f] && strings.Contains(f, ow+"_") {
				return failf("C09:foreign-secret-read:"+c.Site, "denied cross-namespace reference %q made the controller read the foreign secret: file %s was written", c.Site, f)
			}
		}
	}
	_ = os.Getenv
	return nil
}

func init() { registerReplay("C09", execC09) }

func TestC09(t *testing.T) {
	runProperty(t, "C09", genC09, execC09)
}
