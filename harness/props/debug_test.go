package props

import (
	"encoding/json"
	"fmt"
	"github.com/jcmoraisjr/haproxy-ingress/pkg/converters"
	"github.com/jcmoraisjr/haproxy-ingress/pkg/utils"
	"os"
	"reflect"
	"testing"

	"github.com/kylelemons/godebug/pretty"

	"verifharness/ctlsim"
)

// TestDebugFullTwice: bootstrap a history's initial world, then force full syncs and
// print how the model of each backend differs between consecutive syncs (development aid).
func TestDebugFullTwice(t *testing.T) {
	path := os.Getenv("VERIF_REPLAY")
	if path == "" {
		t.Skip()
	}
	data, _ := os.ReadFile(path)
	var rf ReplayFile
	_ = json.Unmarshal(data, &rf)
	var c HistCase
	_ = json.Unmarshal(rf.Case, &c)
	s, err := ctlsim.New(c.Params)
	if err != nil {
		t.Fatal(err)
	}
	defer s.Close()
	_, _ = s.Bootstrap(c.Init)
	prev := map[string]string{}
	prevObj := map[string]interface{}{}
	for i := 0; i < 6; i++ {
		s.EnqueueRetry(true)
		infos := s.Reconcile()
		cur := map[string]string{}
		for id, b := range s.Instance.Config().Backends().Items() {
			cur[id] = pretty.Sprint(b)
			if pb, ok := prevObj[id]; ok && !reflect.DeepEqual(pb, b) {
				fmt.Printf("sync %d backend %s: DeepEqual false: %s\n", i, id, firstDiff("", reflect.ValueOf(pb), reflect.ValueOf(b), 0))
			}
			prevObj[id] = b
		}
		for id, txt := range cur {
			if p, ok := prev[id]; ok && p != txt {
				fmt.Printf("sync %d: backend %s differs:\n%s\n", i, id, pretty.Compare(p, txt))
			}
		}
		prev = cur
		fmt.Println("sync", i, "reloads", infos[0].Reloads)
	}
}

func firstDiff(path string, a, b reflect.Value, depth int) string {
	if depth > 12 {
		return ""
	}
	if a.Kind() != b.Kind() {
		return path + ": kind"
	}
	switch a.Kind() {
	case reflect.Ptr, reflect.Interface:
		if a.IsNil() != b.IsNil() {
			return path + ": nil-ness"
		}
		if a.IsNil() {
			return ""
		}
		return firstDiff(path, a.Elem(), b.Elem(), depth+1)
	case reflect.Struct:
		for i := 0; i < a.NumField(); i++ {
			if a.Type().Field(i).Name == "Endpoints" || a.Type().Field(i).Name == "PathsMap" || a.Type().Field(i).Name == "pathConfig" || a.Type().Field(i).Name == "PathsDefaultHostMap" {
				continue
			}
			if d := firstDiff(path+"."+a.Type().Field(i).Name, a.Field(i), b.Field(i), depth+1); d != "" {
				return d
			}
		}
	case reflect.Slice, reflect.Array:
		if a.Len() != b.Len() {
			return fmt.Sprintf("%s: len %d vs %d", path, a.Len(), b.Len())
		}
		for i := 0; i < a.Len(); i++ {
			if d := firstDiff(fmt.Sprintf("%s[%d]", path, i), a.Index(i), b.Index(i), depth+1); d != "" {
				return d
			}
		}
	case reflect.Map:
		if a.Len() != b.Len() {
			return fmt.Sprintf("%s: map len %d vs %d", path, a.Len(), b.Len())
		}
		for _, k := range a.MapKeys() {
			bv := b.MapIndex(k)
			if !bv.IsValid() {
				return fmt.Sprintf("%s[%v]: missing", path, k)
			}
			if d := firstDiff(fmt.Sprintf("%s[%v]", path, k), a.MapIndex(k), bv, depth+1); d != "" {
				return d
			}
		}
	case reflect.String:
		if a.String() != b.String() {
			return fmt.Sprintf("%s: %q vs %q", path, a.String(), b.String())
		}
	case reflect.Int, reflect.Int32, reflect.Int64:
		if a.Int() != b.Int() {
			return fmt.Sprintf("%s: %d vs %d", path, a.Int(), b.Int())
		}
	case reflect.Bool:
		if a.Bool() != b.Bool() {
			return fmt.Sprintf("%s: %v vs %v", path, a.Bool(), b.Bool())
		}
	}
	return ""
}

// TestDebugShrink repeats bootstrap + forced full sync and, before each HAProxyUpdate,
// reports why an added backend differs from the deleted one of the same name.
func TestDebugShrink(t *testing.T) {
	path := os.Getenv("VERIF_REPLAY")
	if path == "" {
		t.Skip()
	}
	data, _ := os.ReadFile(path)
	var rf ReplayFile
	_ = json.Unmarshal(data, &rf)
	var c HistCase
	_ = json.Unmarshal(rf.Case, &c)
	for round := 0; round < 40; round++ {
		s, err := ctlsim.New(c.Params)
		if err != nil {
			t.Fatal(err)
		}
		_, _ = s.Bootstrap(c.Init)
		for i := 0; i < 3; i++ {
			changed := s.Watchers.GetChangedObjects()
			changed.NeedFullSync = true
			timer := utils.NewTimer(nil)
			converters.NewConverter(timer, s.Instance.Config(), changed, s.ConvOpt).Sync()
			bk := s.Instance.Config().Backends()
			for id, add := range bk.ItemsAdd() {
				if del, ok := bk.ItemsDel()[id]; ok {
					if d := firstDiff("", reflect.ValueOf(del), reflect.ValueOf(add), 0); d != "" {
						fmt.Printf("round %d sync %d backend %s old/new differ at %s\n", round, i, id, d)
					}
				}
			}
			_ = s.Instance.HAProxyUpdate(timer)
			s.Log.Take()
		}
		s.Close()
	}
}
