package props

import (
	"fmt"
	"sort"
	"testing"

	"verifharness/ctlsim"
	"verifharness/hapcfg"
	"verifharness/world"
)

func TestSmoke(t *testing.T) {
	objs := []*world.Obj{
		{Kind: world.KIngressClass, Name: "haproxy", Controller: world.ControllerName},
		{Kind: world.KService, NS: "a", Name: "s1", Ports: []world.SvcPort{{Name: "http", Port: 80, Target: "8080"}}},
		{Kind: world.KEndpoints, NS: "a", Name: "s1", Subsets: []world.Subset{{Ready: []world.Addr{{IP: "10.0.0.1", Pod: "p1"}, {IP: "10.0.0.2"}}, NotReady: []world.Addr{{IP: "10.0.0.3"}}, Ports: []world.SvcPort{{Name: "http", Port: 8080}}}}},
		{Kind: world.KService, NS: "a", Name: "s2", Ports: []world.SvcPort{{Port: 8000}}},
		{Kind: world.KEndpoints, NS: "a", Name: "s2", Subsets: []world.Subset{{Ready: []world.Addr{{IP: "10.0.1.1"}}, Ports: []world.SvcPort{{Port: 8000}}}}},
		{Kind: world.KSecret, NS: "a", Name: "tls1", SecretKind: "tls", Cert: 0},
		{Kind: world.KSecret, NS: "a", Name: "pw", SecretKind: "auth", Auth: "usr1::clear1\n"},
		{Kind: world.KIngress, NS: "a", Name: "i1", ClassName: sp("haproxy"), Created: 1,
			Rules: []world.Rule{{Host: "h1.local", Paths: []world.Path{{Path: "/", Type: "Prefix", Svc: "s1", Port: "80"}, {Path: "/app", Type: "Exact", Svc: "s2", Port: "8000"}}}},
			TLS:   []world.TLS{{Hosts: []string{"h1.local"}, Secret: "tls1"}}},
		{Kind: world.KIngress, NS: "a", Name: "i2", ClassName: sp("haproxy"), Created: 2,
			Ann:     map[string]string{"auth-type": "basic", "auth-secret": "pw", "auth-url": ""},
			DefBack: &world.Path{Svc: "s2", Port: "8000"},
			Rules:   []world.Rule{{Host: "h2.local", Paths: []world.Path{{Path: "/App/sub", Svc: "s2", Port: "8000"}}}, {Host: "", Paths: []world.Path{{Path: "/x", Type: "Prefix", Svc: "s1", Port: "http"}}}}},
	}
	s, err := ctlsim.New(ctlsim.Params{Shards: 0})
	if err != nil {
		t.Fatal(err)
	}
	defer s.Close()
	steps, err := s.Bootstrap(objs)
	if err != nil {
		t.Fatal(err)
	}
	for _, st := range steps {
		fmt.Printf("STEP full=%v err=%v reloads=%d cmds=%d\n", st.FullReq, st.Err, st.Reloads, st.Cmds)
		for _, l := range st.Logs {
			fmt.Println("   ", l)
		}
	}
	files := s.Files()
	var names []string
	for n := range files {
		names = append(names, n)
	}
	sort.Strings(names)
	if testing.Verbose() && false {
		for _, n := range names {
			fmt.Printf("===== %s\n%s\n", n, files[n])
		}
	}
	cfg, errs := hapcfg.LoadDir(s.CfgDir())
	fmt.Println("parse errors:", errs)
	for _, rq := range []hapcfg.Request{
		{Host: "h1.local", Path: "/"}, {Host: "h1.local", Path: "/app"}, {Host: "H1.local:80", Path: "/app/x"},
		{Host: "h1.local", Path: "/app", HTTPS: true}, {Host: "h2.local", Path: "/APP/sub/x"}, {Host: "h2.local", Path: "/zz"},
		{Host: "h2.local", Path: "/x/y", HTTPS: true}, {Host: "nope", Path: "/xy"},
	} {
		r := cfg.Route(rq)
		fmt.Println(rq.String(), "=>", r.Summary())
	}
	st := s.Hap.Snapshot()
	fmt.Println("sim backends:", len(st.Backends), "certs:", len(st.Certs))
}

func TestSmokeRoute(t *testing.T) {
	// see TestSmoke for the world; kept small here
}
