package props

import (
	"fmt"
	"math/big"
	"strings"
	"testing"

	convutils "github.com/jcmoraisjr/haproxy-ingress/pkg/converters/utils"
	"pgregory.net/rapid"

	"verifharness/ctlsim"
	"verifharness/hapcfg"
	"verifharness/world"
)

// C16 — weighted balancing (unit level: RebalanceWeight).

// C16Group is a blue/green group or a weighted backendRef.
type C16Group struct {
	Weight int `json:"weight"`
	Length int `json:"length"`
}

// C16Case ...
type C16Case struct {
	Initial int        `json:"initial"`
	Groups  []C16Group `json:"groups"`
}

func genC16(t *rapid.T) C16Case {
	c := C16Case{Initial: rapid.SampledFrom([]int{1, 1, 1, 2, 3, 10, 100, 128, 128, 256}).Draw(t, "initial")}
	if chanceT(t, "anyinitial", 30) {
		c.Initial = rapid.IntRange(1, 256).Draw(t, "initialv")
	}
	n := rapid.IntRange(1, 5).Draw(t, "ngroups")
	for i := 0; i < n; i++ {
		g := C16Group{}
		switch rapid.IntRange(0, 5).Draw(t, "wkind") {
		case 0:
			g.Weight = 0
		case 1:
			g.Weight = rapid.SampledFrom([]int{1, 2, 3, 5, 7, 100, 255, 256}).Draw(t, "wsmall")
		default:
			g.Weight = rapid.IntRange(0, 256).Draw(t, "w")
		}
		switch rapid.IntRange(0, 5).Draw(t, "lkind") {
		case 0:
			g.Length = 0
		case 1:
			g.Length = rapid.SampledFrom([]int{1, 2, 3, 5, 7, 11, 13, 17, 28, 40}).Draw(t, "lprime")
		default:
			g.Length = rapid.IntRange(0, 40).Draw(t, "l")
		}
		c.Groups = append(c.Groups, g)
	}
	return c
}

// c16Check verifies the rebalanced weights against the exact rational model.
// Returns signature+message of the first violated clause.
func c16Check(initial int, groups []C16Group, got []int) *Failure {
	type gi struct {
		idx   int
		ratio *big.Rat
	}
	var act []gi
	for i, g := range groups {
		if g.Weight > 0 && g.Length > 0 {
			act = append(act, gi{i, big.NewRat(int64(g.Weight), int64(g.Length))})
		}
	}
	for i, g := range groups {
		if g.Length == 0 {
			continue // no server carries this weight
		}
		w := got[i]
		if w < 0 || w > 256 {
			return failf("C16:out-of-range", "group %d %+v got weight %d, outside 0..256 (initial-weight %d, groups %+v)", i, g, w, initial, groups)
		}
		if g.Weight == 0 && w != 0 {
			return failf("C16:zero-weight-gets-traffic", "group %d %+v has configured weight 0 but its servers got weight %d (groups %+v)", i, g, w, groups)
		}
		if g.Weight > 0 && w == 0 {
			return failf("C16:nonzero-weight-gets-zero", "group %d %+v has a non-zero configured weight but its servers got weight 0, they receive no traffic (initial-weight %d, groups %+v -> %v)", i, g, initial, groups, got)
		}
	}
	if len(act) == 0 {
		return nil
	}
	rmin, rmax := act[0].ratio, act[0].ratio
	for _, a := range act {
		if a.ratio.Cmp(rmin) < 0 {
			rmin = a.ratio
		}
		if a.ratio.Cmp(rmax) > 0 {
			rmax = a.ratio
		}
	}
	// documented scale: the smallest per-server weight is initial-weight, unless
	// that would push the largest above 256, then the largest is 256.
	k := new(big.Rat).Quo(big.NewRat(int64(initial), 1), rmin)
	if new(big.Rat).Mul(k, rmax).Cmp(big.NewRat(256, 1)) > 0 {
		k = new(big.Rat).Quo(big.NewRat(256, 1), rmax)
	}
	one := big.NewRat(1, 1)
	for _, a := range act {
		exact := new(big.Rat).Mul(k, a.ratio)
		w := big.NewRat(int64(got[a.idx]), 1)
		diff := new(big.Rat).Sub(w, exact)
		diff.Abs(diff)
		if diff.Cmp(one) > 0 && !(exact.Cmp(one) < 0 && got[a.idx] == 1) {
			ef, _ := exact.Float64()
			return failf("C16:not-proportional", "group %d %+v got weight %d, exact proportional value %.4f differs by more than integer rounding (initial-weight %d, groups %+v -> %v)", a.idx, groups[a.idx], got[a.idx], ef, initial, groups, got)
		}
	}
	for _, a := range act {
		for _, b := range act {
			if a.ratio.Cmp(b.ratio) < 0 && got[a.idx] > got[b.idx] {
				return failf("C16:order-inverted", "group %d %+v has a smaller weight/replica ratio than group %d %+v but a larger server weight (%d > %d)", a.idx, groups[a.idx], b.idx, groups[b.idx], got[a.idx], got[b.idx])
			}
		}
	}
	return nil
}

func execC16(c C16Case) *Failure {
	st := getStats("C16")
	cl := make([]*convutils.WeightCluster, len(c.Groups))
	for i, g := range c.Groups {
		cl[i] = &convutils.WeightCluster{Weight: g.Weight, Length: g.Length}
	}
	convutils.RebalanceWeight(cl, c.Initial)
	got := make([]int, len(cl))
	for i := range cl {
		got[i] = cl[i].Weight
	}
	active := 0
	lens := map[int]bool{}
	for _, g := range c.Groups {
		if g.Weight > 0 && g.Length > 0 {
			active++
			lens[g.Length] = true
		}
	}
	nontrivial := active >= 2 && len(lens) >= 2
	labels := []string{fmt.Sprintf("active-groups=%d", active)}
	if nontrivial {
		labels = append(labels, "different-replica-counts")
	}
	st.Case(c, nontrivial, labels...)
	return c16Check(c.Initial, c.Groups, got)
}

func init() { registerReplay("C16", execC16) }

func TestC16(t *testing.T) {
	runProperty(t, "C16", genC16, execC16)
}

// ---------- pipeline level: blue/green annotations and Gateway backendRefs ----------

// C16PGroup is one labelled group of pods (blue/green) or one backendRef (gateway).
type C16PGroup struct {
	Label    string `json:"label"`
	Weight   int    `json:"weight"`
	Ready    int    `json:"ready"`
	NotReady int    `json:"notReady"`
}

// C16PipeCase ...
type C16PipeCase struct {
	Mode      string      `json:"mode"` // deploy, pod, default (annotation absent => deploy), gateway
	Key       string      `json:"key"`  // blue-green-balance or blue-green-deploy
	Initial   int         `json:"initial"`
	Groups    []C16PGroup `json:"groups"`
	Unlabeled int         `json:"unlabeled"`
	Drain     bool        `json:"drain"`
	// NoWeights (gateway): no backendRef declares a weight, which means 1 each
	NoWeights bool `json:"noWeights,omitempty"`
	// Reweight: after the first sync only the configured weights change (same pods, same endpoints) and the
	// written weights are checked again: a weights-only change must not be mistaken for "nothing changed"
	Reweight []int `json:"reweight,omitempty"`
	// ModeGlobal: blue-green-mode comes from the global ConfigMap instead of an annotation
	ModeGlobal bool `json:"modeGlobal,omitempty"`
	// NoDynScaling: the backend declares dynamic-scaling "false" (changes are applied by reloads only)
	NoDynScaling bool `json:"noDynScaling,omitempty"`
	// Pad (annotation modes): number of zeros written in front of each group's weight ("010" is ten)
	Pad []int `json:"pad,omitempty"`
}

func genC16Pipe(t *rapid.T) C16PipeCase {
	c := C16PipeCase{
		Mode:    rapid.SampledFrom([]string{"deploy", "deploy", "default", "pod", "gateway", "gateway"}).Draw(t, "mode"),
		Key:     rapid.SampledFrom([]string{"blue-green-balance", "blue-green-deploy"}).Draw(t, "key"),
		Initial: rapid.SampledFrom([]int{1, 1, 2, 10, 100, 256}).Draw(t, "initial"),
		Drain:   rapid.Bool().Draw(t, "drain"),
	}
	n := rapid.IntRange(1, 3).Draw(t, "ngroups")
	labels := []string{"blue", "green", "red"}
	for i := 0; i < n; i++ {
		c.Groups = append(c.Groups, C16PGroup{
			Label:    labels[i],
			Weight:   rapid.SampledFrom([]int{0, 1, 1, 2, 3, 4, 10, 50, 100, 255, 256}).Draw(t, "w"),
			Ready:    rapid.IntRange(0, 5).Draw(t, "ready"),
			NotReady: rapid.IntRange(0, 1).Draw(t, "notready"),
		})
	}
	if c.Mode != "gateway" {
		c.Unlabeled = rapid.IntRange(0, 2).Draw(t, "unlabeled")
		c.NoDynScaling = chanceT(t, "nodynscaling", 30)
		c.ModeGlobal = (c.Mode == "deploy" || c.Mode == "pod") && chanceT(t, "modeglobal", 30)
		if chanceT(t, "padded", 25) {
			for range c.Groups {
				c.Pad = append(c.Pad, rapid.IntRange(0, 2).Draw(t, "pad"))
			}
		}
		if chanceT(t, "reweight", 35) {
			for range c.Groups {
				c.Reweight = append(c.Reweight, rapid.SampledFrom([]int{0, 1, 2, 3, 10, 50, 100}).Draw(t, "w2"))
			}
		}
	} else if chanceT(t, "noweights", 25) {
		c.NoWeights = true
		for i := range c.Groups {
			c.Groups[i].Weight = 1
		}
	} else if chanceT(t, "reweight", 35) {
		for range c.Groups {
			c.Reweight = append(c.Reweight, rapid.SampledFrom([]int{0, 1, 2, 3, 10, 50, 100}).Draw(t, "w2"))
		}
	}
	return c
}

func c16PipeWorld(c C16PipeCase) ([]*world.Obj, map[string]string) {
	var objs []*world.Obj
	owner := map[string]string{} // ip -> group label ("" unlabeled); draining marked with "!" prefix
	objs = append(objs, &world.Obj{Kind: world.KIngressClass, Name: world.OurClass, Controller: world.ControllerName})
	if c.Drain || c.ModeGlobal {
		data := map[string]string{}
		if c.Drain {
			data["drain-support"] = "true"
		}
		if c.ModeGlobal {
			data["blue-green-mode"] = c.Mode
		}
		objs = append(objs, &world.Obj{Kind: world.KConfigMap, NS: world.CtlNS, Name: "haproxy-ingress", Data: data})
	}
	if c.Mode == "gateway" {
		objs = append(objs,
			&world.Obj{Kind: world.KNamespace, Name: "a"},
			&world.Obj{Kind: world.KGatewayClass, Name: "gwc", Controller: world.ControllerName},
			&world.Obj{Kind: world.KGateway, NS: "a", Name: "gw", GW: &world.GatewaySpec{Class: "gwc", Listeners: []world.Listener{{Name: "l1", Port: 80, Protocol: "HTTP", From: "Same"}}}},
		)
		rule := world.RouteRule{}
		for i, g := range c.Groups {
			svc := fmt.Sprintf("s%d", i+1)
			objs = append(objs, &world.Obj{Kind: world.KService, NS: "a", Name: svc, Ports: []world.SvcPort{{Name: "http", Port: 80, Target: "8080"}}})
			ss := world.Subset{Ports: []world.SvcPort{{Name: "http", Port: 8080}}}
			for k := 0; k < g.Ready; k++ {
				ip := fmt.Sprintf("10.1.%d.%d", i+1, k+1)
				ss.Ready = append(ss.Ready, world.Addr{IP: ip})
				owner[ip] = g.Label
			}
			for k := 0; k < g.NotReady; k++ {
				ip := fmt.Sprintf("10.1.%d.%d", i+1, 100+k)
				ss.NotReady = append(ss.NotReady, world.Addr{IP: ip})
				owner[ip] = "!" + g.Label
			}
			ep := &world.Obj{Kind: world.KEndpoints, NS: "a", Name: svc}
			if len(ss.Ready)+len(ss.NotReady) > 0 {
				ep.Subsets = []world.Subset{ss}
			}
			objs = append(objs, ep)
			port, w := 80, g.Weight
			ref := world.BackRef{Name: svc, Port: &port, Weight: &w}
			if c.NoWeights {
				ref.Weight = nil
			}
			rule.Backends = append(rule.Backends, ref)
		}
		objs = append(objs, &world.Obj{Kind: world.KHTTPRoute, NS: "a", Name: "r1", RT: &world.RouteSpec{
			Parents: []world.ParentRef{{Name: "gw"}}, Hostnames: []string{"h1.local"}, Rules: []world.RouteRule{rule}}})
		return objs, owner
	}
	objs = append(objs, &world.Obj{Kind: world.KService, NS: "a", Name: "s1", Selector: map[string]string{"app": "x"}, Ports: []world.SvcPort{{Name: "http", Port: 80, Target: "8080"}}})
	ss := world.Subset{Ports: []world.SvcPort{{Name: "http", Port: 8080}}}
	n := 0
	addPod := func(label string, ready bool) {
		n++
		ip := fmt.Sprintf("10.1.1.%d", n)
		name := fmt.Sprintf("p%d", n)
		lb := map[string]string{"app": "x"}
		if label != "" {
			lb["group"] = label
		}
		objs = append(objs, &world.Obj{Kind: world.KPod, NS: "a", Name: name, Labels: lb, PodIP: ip, UID: "uid-" + name, ContPorts: []world.SvcPort{{Name: "http", Port: 8080}}})
		if ready {
			ss.Ready = append(ss.Ready, world.Addr{IP: ip, Pod: name})
			owner[ip] = label
		} else {
			ss.NotReady = append(ss.NotReady, world.Addr{IP: ip, Pod: name})
			owner[ip] = "!" + label
		}
	}
	var parts []string
	for gi, g := range c.Groups {
		for k := 0; k < g.Ready; k++ {
			addPod(g.Label, true)
		}
		for k := 0; k < g.NotReady; k++ {
			addPod(g.Label, false)
		}
		w := fmt.Sprint(g.Weight)
		if gi < len(c.Pad) {
			w = strings.Repeat("0", c.Pad[gi]) + w
		}
		parts = append(parts, fmt.Sprintf("group=%s=%s", g.Label, w))
	}
	for k := 0; k < c.Unlabeled; k++ {
		addPod("", true)
	}
	ep := &world.Obj{Kind: world.KEndpoints, NS: "a", Name: "s1"}
	if len(ss.Ready)+len(ss.NotReady) > 0 {
		ep.Subsets = []world.Subset{ss}
	}
	objs = append(objs, ep)
	ann := map[string]string{c.Key: strings.Join(parts, ","), "initial-weight": fmt.Sprint(c.Initial)}
	if (c.Mode == "deploy" || c.Mode == "pod") && !c.ModeGlobal {
		ann["blue-green-mode"] = c.Mode
	}
	if c.NoDynScaling {
		ann["dynamic-scaling"] = "false"
	}
	objs = append(objs, &world.Obj{Kind: world.KIngress, NS: "a", Name: "i1", ClassName: sp(world.OurClass), Ann: ann,
		Rules: []world.Rule{{Host: "h1.local", Paths: []world.Path{{Path: "/", Type: "Prefix", Svc: "s1", Port: "80"}}}}})
	return objs, owner
}

func execC16Pipe(c C16PipeCase) *Failure {
	objs, owner := c16PipeWorld(c)
	s, steps, err := freshSim(ctlsim.Params{Gateway: c.Mode == "gateway"}, objs)
	if err != nil {
		panic(err)
	}
	defer s.Close()
	if e := stepErrors(steps); e != nil {
		return failf("C16:update-error", "update failed: %v", e)
	}
	f := c16PipeEval(c, s, owner, steps)
	if f != nil || len(c.Reweight) != len(c.Groups) {
		return f
	}
	// the same cluster with other weights only
	c2 := c
	c2.Groups = append([]C16PGroup{}, c.Groups...)
	for i := range c2.Groups {
		c2.Groups[i].Weight = c.Reweight[i]
	}
	objs2, _ := c16PipeWorld(c2)
	var ops []world.Op
	for _, o := range objs2 {
		if o.Kind == world.KIngress || o.Kind == world.KHTTPRoute {
			ops = append(ops, world.Op{Op: "update", Obj: o})
		}
	}
	if err := s.Apply(ops); err != nil {
		panic(err)
	}
	steps2 := s.Reconcile()
	if e := stepErrors(steps2); e != nil {
		return failf("C16:update-error", "update failed: %v", e)
	}
	if f := c16PipeEval(c2, s, owner, steps2); f != nil {
		f.Msg = fmt.Sprintf("after the weights were changed from %v to %v: %s", c.Groups, c2.Groups, f.Msg)
		return f
	}
	return nil
}

// c16PipeEval checks the weights written for the configuration c.
func c16PipeEval(c C16PipeCase, s *ctlsim.Sim, owner map[string]string, steps []ctlsim.StepInfo) *Failure {
	st := getStats("C16")
	cfg, _ := hapcfg.LoadDir(s.CfgDir())
	var be *hapcfg.Backend
	for _, b := range cfg.Backends {
		if strings.HasPrefix(b.Name, "a_") {
			be = b
		}
	}
	active := 0
	lens := map[int]bool{}
	total := 0
	for _, g := range c.Groups {
		total += g.Ready
		if g.Weight > 0 && g.Ready > 0 {
			active++
			lens[g.Ready] = true
		}
	}
	nontrivial := active >= 2 && len(lens) >= 2
	st.Case(c, nontrivial, "pipeline", "pipeline-mode="+c.Mode)
	if be == nil {
		if total+c.Unlabeled == 0 || c.Mode == "gateway" {
			// gateway: a rule whose backendRefs all fail to resolve creates no backend
			if c.Mode == "gateway" {
				return nil
			}
		}
		return failf("C16:no-backend", "no backend section was written for the service; steps: %v", steps[len(steps)-1].Logs)
	}
	got := map[string]int{}
	for _, sv := range be.Servers {
		if sv.Disabled {
			continue
		}
		got[sv.Addr] = sv.Weight
		if sv.Weight < 0 || sv.Weight > 256 {
			return failf("C16:out-of-range", "server %s has weight %d", sv.Target, sv.Weight)
		}
	}
	// every ready endpoint must be present; draining ones only with drain-support (ingress) and weight 0
	groupW := map[string]int{}
	groupSeen := map[string]bool{}
	for ip, lab := range owner {
		w, present := got[ip]
		if strings.HasPrefix(lab, "!") {
			if present && w != 0 {
				return failf("C16:draining-gets-traffic", "not-ready endpoint %s is written with weight %d", ip, w)
			}
			if present && !c.Drain {
				return failf("C16:draining-without-drain-support", "not-ready endpoint %s is written although drain-support is off", ip)
			}
			continue
		}
		if !present {
			return failf("C16:ready-endpoint-missing", "ready endpoint %s (group %q) has no enabled server line", ip, lab)
		}
		if lab == "" {
			if w != 0 {
				return failf("C16:unmatched-gets-traffic", "endpoint %s matches no blue/green group but has weight %d", ip, w)
			}
			continue
		}
		if groupSeen[lab] && groupW[lab] != w {
			return failf("C16:uneven-group", "servers of group %s have different weights (%d and %d)", lab, groupW[lab], w)
		}
		groupSeen[lab] = true
		groupW[lab] = w
	}
	groups := make([]C16Group, len(c.Groups))
	gotW := make([]int, len(c.Groups))
	for i, g := range c.Groups {
		groups[i] = C16Group{Weight: g.Weight, Length: g.Ready}
		gotW[i] = groupW[g.Label]
	}
	if c.Mode == "pod" {
		for i, g := range groups {
			if g.Length > 0 && gotW[i] != g.Weight {
				return failf("C16:pod-mode-weight", "pod mode: group %s configured weight %d, written %d", c.Groups[i].Label, g.Weight, gotW[i])
			}
		}
		return nil
	}
	initial := c.Initial
	if c.Mode == "gateway" {
		initial = 128
	}
	if f := c16Check(initial, groups, gotW); f != nil {
		f.Msg = "pipeline (" + c.Mode + "): " + f.Msg
		return f
	}
	return nil
}

func init() { registerReplay("C16P", execC16Pipe) }

func TestC16Pipeline(t *testing.T) {
	runPropertyAs(t, "C16", "C16P", genC16Pipe, execC16Pipe)
}
