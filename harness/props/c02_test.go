package props

import (
	"fmt"
	"strings"
	"testing"

	"pgregory.net/rapid"

	"verifharness/ctlsim"
	"verifharness/simhap"
)

// C02 — the running HAProxy never diverges from the on-disk configuration after runtime updates.

func genC02(t *rapid.T) DynCase {
	p := dynProfile(true, true)
	// DNS based backends: a server-template whose size is the number of endpoints, never updated by runtime commands
	p.GlobalAlways = map[string]string{"dns-resolvers": "kubernetes=10.0.0.2:53"}
	p.Ann = append(p.Ann, annChoice{"use-resolver", []string{"kubernetes"}})
	p.Bundles = append(p.Bundles, annBundle{Name: "resolver", Keys: []annChoice{{"use-resolver", []string{"kubernetes"}}}})
	if p.BundlePct < 20 {
		p.BundlePct = 20
	}
	p.UnlabeledPods = true
	h := genDynHistory(t, p, dynKinds, sizeScale(8, 14))
	c := DynCase{Hist: h}
	kinds := []string{simhap.FaultRefuse, simhap.FaultDrop, simhap.FaultDropApp, simhap.FaultNotOK}
	for range h.Batches {
		m := map[int]string{}
		if chanceT(t, "faulty", 35) {
			n := rapid.IntRange(1, 2).Draw(t, "nfaults")
			for i := 0; i < n; i++ {
				m[rapid.IntRange(1, 8).Draw(t, "ordinal")] = rapid.SampledFrom(kinds).Draw(t, "faultkind")
			}
		}
		c.Faults = append(c.Faults, m)
	}
	return c
}

func execC02(c DynCase) *Failure {
	st := getStats("C02")
	dynSteps, faultsHit, slotReuse, certCommit := 0, 0, 0, 0
	steps := 0
	f := histRun2(c.Hist, func(s *ctlsim.Sim, batch int) {
		var m map[int]string
		if batch < len(c.Faults) {
			m = c.Faults[batch]
		}
		s.Hap.SetFaults(m, nil)
	}, func(s *ctlsim.Sim, batch int, infos []ctlsim.StepInfo) *Failure {
		steps += len(infos)
		_, _, _, fh := s.Hap.Counters()
		for _, in := range infos {
			if in.Err != nil {
				// a failed update is C12's subject; the next successful one must converge
				return nil
			}
			if in.Cmds > 0 && in.Reloads == 0 {
				dynSteps++
			}
			for _, l := range in.Logs {
				if strings.Contains(l, "certificate updated for") {
					certCommit++
				}
				if strings.HasPrefix(l, "INFO-V added endpoint") {
					slotReuse++
				}
			}
		}
		faultsHit = fh
		if diff := runningVsFiles(s, false); len(diff) > 0 {
			cmds := s.Hap.TakeCmdLog()
			if len(cmds) > 12 {
				cmds = cmds[len(cmds)-12:]
			}
			last := infos[len(infos)-1]
			sig := "C02:running-differs-from-files"
			if last.Reloads == 0 && last.Cmds > 0 {
				sig = "C02:dynamic-update-diverged"
			} else if last.Reloads == 0 {
				sig = "C02:no-reload-no-command-diverged"
			}
			return failf(sig, "after batch %d (reloads=%d, runtime commands=%d) the running HAProxy differs from what the written files would load:\n  %s\nlast commands:\n  %s\nlast step log:\n  %s\nhistory:\n%s",
				batch, last.Reloads, last.Cmds, strings.Join(diff, "\n  "), strings.Join(cmds, "\n  "), strings.Join(last.Logs, "\n  "), describeBatches(c.Hist))
		}
		s.Hap.TakeCmdLog()
		return nil
	})
	labels := histLabels(c.Hist)
	if dynSteps > 0 {
		labels = append(labels, "dynamic-update-without-reload")
	}
	if faultsHit > 0 {
		labels = append(labels, "fault-hit")
	}
	if slotReuse > 0 {
		labels = append(labels, "empty-slot-filled")
	}
	if certCommit > 0 {
		labels = append(labels, "certificate-committed-at-runtime")
	}
	st.Case(c, dynSteps > 0, labels...)
	st.Count("reconcile_steps", steps)
	st.Count("dynamic_steps", dynSteps)
	st.Count("faults_hit", faultsHit)
	_ = fmt.Sprint
	return f
}

func init() { registerReplay("C02", execC02) }

func TestC02(t *testing.T) {
	runProperty(t, "C02", genC02, execC02)
}
