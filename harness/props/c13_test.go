package props

import (
	"context"
	"fmt"
	"sort"
	"sync"
	"testing"
	"time"

	k8sworkqueue "k8s.io/client-go/util/workqueue"
	"pgregory.net/rapid"

	"github.com/jcmoraisjr/haproxy-ingress/pkg/utils/workqueue"
	"verifharness/ctlsim"
	"verifharness/world"
)

// C13 — rate limits hold: minimum spacing, coalescing, nothing dropped.

// C13Case is an arrival schedule: gaps between notifications in per-mille of the interval.
type C13Case struct {
	Limiter    string `json:"limiter"` // reload, reconcile
	IntervalMs int    `json:"intervalMs"`
	WaitMs     int    `json:"waitMs"` // reconcile only
	Gaps       []int  `json:"gaps"`   // per-mille of the interval; first arrival after Gaps[0]
	Real       bool   `json:"real"`   // also drive the real queue (part B)
	// FailRuns (real reload queue only): the runs, counted from 0, whose sync func returns an error - a reload that
	// failed. The queue adds the item again by itself (one more call of the limiter), and that run must happen too.
	FailRuns []int `json:"failRuns,omitempty"`
}

func genC13(t *rapid.T) C13Case {
	c := C13Case{
		Limiter:    rapid.SampledFrom([]string{"reload", "reload", "reconcile"}).Draw(t, "limiter"),
		IntervalMs: rapid.SampledFrom([]int{20, 30, 40, 60}).Draw(t, "interval"),
		Real:       rapid.Bool().Draw(t, "real"),
	}
	if c.Limiter == "reconcile" {
		c.WaitMs = rapid.SampledFrom([]int{0, 2, 5, 10}).Draw(t, "wait")
	}
	n := rapid.IntRange(3, 8).Draw(t, "narrivals")
	for i := 0; i < n; i++ {
		c.Gaps = append(c.Gaps, rapid.SampledFrom([]int{0, 0, 100, 300, 500, 500, 600, 900, 950, 1050, 1100, 1300, 2500}).Draw(t, "gap"))
	}
	if c.Real && c.Limiter == "reload" && chanceT(t, "failruns", 35) {
		c.FailRuns = dedupInts(rapid.SliceOfN(rapid.IntRange(0, n), 1, 2).Draw(t, "failrun"))
	}
	return c
}

// whenCall is one bracketed call of the limiter: tb <= (now read inside When) <= ta.
type whenCall struct {
	tb, ta time.Duration // since the start of the case
	d      time.Duration
}

type recLimiter[T comparable] struct {
	inner k8sworkqueue.TypedRateLimiter[T]
	start time.Time
	mu    sync.Mutex
	calls []whenCall
}

func (r *recLimiter[T]) When(item T) time.Duration {
	r.mu.Lock()
	defer r.mu.Unlock()
	tb := time.Since(r.start)
	d := r.inner.When(item)
	ta := time.Since(r.start)
	r.calls = append(r.calls, whenCall{tb, ta, d})
	return d
}
func (r *recLimiter[T]) Forget(item T)          { r.inner.Forget(item) }
func (r *recLimiter[T]) NumRequeues(item T) int { return r.inner.NumRequeues(item) }

// modelRun is a run the delaying queue schedules: [lo, hi] bounds its instant.
type modelRun struct {
	lo, hi time.Duration
	adds   int // notifications coalesced into this run
	first  int // index of the first call served by this run
	// ambiguous: some notification arrived inside [lo, hi], ie possibly just after the run was released
	ambiguous bool
	ambN      int // how many notifications arrived inside [lo, hi]
}

// c13Model is client-go's delaying queue for one de-duplicated item: the earliest
// deadline of the waiting entry is kept; an add that arrives before the waiting
// entry fires is coalesced into it.
func c13Model(calls []whenCall) []modelRun {
	var runs []modelRun
	var cur *modelRun
	for i, c := range calls {
		lo, hi := c.tb+c.d, c.ta+c.d
		if cur != nil && c.tb > cur.hi {
			// the pending run certainly fired before this arrival
			runs = append(runs, *cur)
			cur = nil
		}
		if cur == nil {
			cur = &modelRun{lo: lo, hi: hi, adds: 1, first: i}
			continue
		}
		cur.adds++
		if c.ta >= cur.lo {
			// the arrival may have come just after the pending run was released (the run is due in
			// [cur.lo, cur.hi]): whether it was coalesced or starts a new run is not determined by the
			// observation; no "too late" verdict is drawn for the run that follows
			cur.ambiguous = true
			cur.ambN++
		}
		if lo < cur.lo {
			cur.lo = lo
		}
		if hi < cur.hi {
			cur.hi = hi
		}
	}
	if cur != nil {
		runs = append(runs, *cur)
	}
	return runs
}

// graceForLastRun: the run that serves the last notification is due by now; on a loaded machine the
// queue's goroutines may be late, and lateness is not a violation ("dropped" means it never runs), so
// wait up to 5 more seconds for it before the queue is shut down.
func graceForLastRun(mu *sync.Mutex, observed *[]time.Duration, lastCall func() time.Duration) {
	deadline := time.Now().Add(5 * time.Second)
	for time.Now().Before(deadline) {
		mu.Lock()
		ok := len(*observed) > 0 && (*observed)[len(*observed)-1] >= lastCall()
		mu.Unlock()
		if ok {
			return
		}
		time.Sleep(2 * time.Millisecond)
	}
}

func sleepUntil(start time.Time, at time.Duration) {
	for {
		rest := at - time.Since(start)
		if rest <= 0 {
			return
		}
		if rest > 2*time.Millisecond {
			time.Sleep(rest - time.Millisecond)
		} else {
			time.Sleep(50 * time.Microsecond)
		}
	}
}

func execC13(c C13Case) *Failure {
	st := getStats("C13")
	interval := time.Duration(c.IntervalMs) * time.Millisecond
	wait := time.Duration(c.WaitMs) * time.Millisecond
	minSpacing := interval
	var arrivals []time.Duration
	at := time.Duration(0)
	for _, g := range c.Gaps {
		at += interval * time.Duration(g) / 1000
		arrivals = append(arrivals, at)
	}
	start := time.Now()
	var calls []whenCall
	var observed []time.Duration
	var obsMu sync.Mutex
	if !c.Real {
		// part A: the limiter alone, run instants from the queue model
		if c.Limiter == "reload" {
			lim := &recLimiter[any]{inner: workqueue.ReloadHAProxyRateLimiter(interval), start: start}
			for _, a := range arrivals {
				sleepUntil(start, a)
				lim.When(nil)
			}
			calls = lim.calls
		} else {
			lim := &recLimiter[bool]{inner: workqueue.IngressReconcilerRateLimiter[bool](1000.0/float64(c.IntervalMs), wait), start: start}
			for _, a := range arrivals {
				sleepUntil(start, a)
				lim.When(false)
			}
			calls = lim.calls
		}
	} else {
		// part B: the real queues, as services.go / reconciler.go build them
		ctx, cancel := context.WithCancel(context.Background())
		record := func() {
			obsMu.Lock()
			observed = append(observed, time.Since(start))
			obsMu.Unlock()
		}
		if c.Limiter == "reload" {
			lim := &recLimiter[any]{inner: workqueue.ReloadHAProxyRateLimiter(interval), start: start}
			failed := 0 // under obsMu
			q := workqueue.New(func(context.Context, any) error {
				obsMu.Lock()
				k := len(observed)
				fail := false
				for _, f := range c.FailRuns {
					fail = fail || f == k
				}
				if fail {
					failed++
				}
				obsMu.Unlock()
				record()
				if fail {
					return fmt.Errorf("reload failed")
				}
				return nil
			}, lim)
			done := make(chan struct{})
			go func() { _ = q.Start(ctx); close(done) }()
			for _, a := range arrivals {
				sleepUntil(start, a)
				q.Add(nil)
			}
			sleepUntil(start, arrivals[len(arrivals)-1]+2*interval+wait+20*time.Millisecond)
			graceForLastRun(&obsMu, &observed, func() time.Duration {
				// (called with obsMu held) every arrival and every failed run calls the limiter once: until the queue has
				// added a failed item again, the last call is not known yet
				lim.mu.Lock()
				defer lim.mu.Unlock()
				if len(lim.calls) < len(arrivals)+failed {
					return time.Hour
				}
				return lim.calls[len(lim.calls)-1].tb
			})
			cancel()
			<-done
			lim.mu.Lock()
			calls = lim.calls
			lim.mu.Unlock()
		} else {
			lim := &recLimiter[bool]{inner: workqueue.IngressReconcilerRateLimiter[bool](1000.0/float64(c.IntervalMs), wait), start: start}
			q := k8sworkqueue.NewTypedRateLimitingQueueWithConfig[bool](lim, k8sworkqueue.TypedRateLimitingQueueConfig[bool]{Name: "ingress"})
			done := make(chan struct{})
			go func() {
				for {
					item, shutdown := q.Get()
					if shutdown {
						close(done)
						return
					}
					record()
					q.Forget(item)
					q.Done(item)
				}
			}()
			for _, a := range arrivals {
				sleepUntil(start, a)
				q.AddRateLimited(false)
			}
			sleepUntil(start, arrivals[len(arrivals)-1]+2*interval+wait+20*time.Millisecond)
			graceForLastRun(&obsMu, &observed, func() time.Duration {
				lim.mu.Lock()
				defer lim.mu.Unlock()
				return lim.calls[len(lim.calls)-1].tb
			})
			q.ShutDown()
			<-done
			cancel()
			lim.mu.Lock()
			calls = lim.calls
			lim.mu.Unlock()
		}
	}
	runs := c13Model(calls)
	ambiguous := 0
	// non-trivial: an arrival coalesced into a pending run, followed by an arrival within one interval after that run
	nontrivial := false
	for i, r := range runs {
		if r.adds >= 2 && i+1 < len(runs) {
			next := calls[runs[i+1].first]
			if next.tb-r.hi < interval {
				nontrivial = true
			}
		}
	}
	labels := []string{"limiter=" + c.Limiter}
	if c.Real {
		labels = append(labels, "real-queue")
	} else {
		labels = append(labels, "limiter-with-queue-model")
	}
	if nontrivial {
		labels = append(labels, "coalesced-then-arrival-within-one-interval")
	}
	st.Case(c, nontrivial, labels...)
	st.Count("arrivals", len(calls))
	st.Count("runs", len(runs))
	defer func() { st.Count("too_late_verdicts_skipped_arrival_at_run_instant", ambiguous) }()
	desc := func() string {
		s := ""
		for i, cl := range calls {
			s += fmt.Sprintf("\n  arrival %d at [%v,%v] delay %v", i, cl.tb.Round(10*time.Microsecond), cl.ta.Round(10*time.Microsecond), cl.d.Round(10*time.Microsecond))
		}
		for i, r := range runs {
			s += fmt.Sprintf("\n  run %d at [%v,%v] serving %d notification(s)", i, r.lo.Round(10*time.Microsecond), r.hi.Round(10*time.Microsecond), r.adds)
		}
		return s
	}
	// spacing: certain violation only
	for i := 0; i+1 < len(runs); i++ {
		if runs[i+1].hi-runs[i].lo < minSpacing {
			return failf("C13:"+c.Limiter+":spacing", "%s limiter, interval %v: consecutive runs %d and %d are scheduled at most %v apart%s", c.Limiter, interval, i, i+1, (runs[i+1].hi - runs[i].lo).Round(10*time.Microsecond), desc())
		}
	}
	// nothing dropped / not later than allowed: run of an arrival <= max(arrival(+wait), previous run + interval)
	for i, r := range runs {
		first := calls[r.first]
		allowed := first.ta + wait
		if i > 0 {
			if p := runs[i-1].hi + interval; p > allowed {
				allowed = p
			}
		}
		if i > 0 && runs[i-1].ambiguous {
			ambiguous++
			continue
		}
		if r.lo > allowed {
			return failf("C13:"+c.Limiter+":too-late", "%s limiter, interval %v: the run serving arrival %d is scheduled at %v, later than the remaining interval allows (%v)%s", c.Limiter, interval, r.first, r.lo.Round(10*time.Microsecond), allowed.Round(10*time.Microsecond), desc())
		}
	}
	for _, cl := range calls {
		if cl.d < 0 || cl.d > interval+wait+time.Millisecond {
			return failf("C13:"+c.Limiter+":delay-out-of-range", "limiter returned delay %v for interval %v%s", cl.d, interval, desc())
		}
	}
	if c.Real {
		// one-sided and jitter-proof: a callback never starts before the model's run, never more runs than the model
		obsMu.Lock()
		obs := append([]time.Duration{}, observed...)
		obsMu.Unlock()
		// a notification that arrives while a run is due may have been coalesced into it (as the model assumes) or
		// may have come just after it was released and started a run of its own: both are correct
		permitted := len(runs)
		for _, r := range runs {
			permitted += r.ambN
		}
		if len(obs) > permitted {
			return failf("C13:"+c.Limiter+":extra-run", "the real queue ran %d times, the schedule permits %d%s\n  observed %v", len(obs), permitted, desc(), obs)
		}
		// nothing dropped: the last notification must be followed by a run (a slow worker may
		// legitimately merge two scheduled runs into one, so the counts need not be equal)
		if len(calls) > 0 && (len(obs) == 0 || obs[len(obs)-1] < calls[len(calls)-1].tb) {
			return failf("C13:"+c.Limiter+":dropped", "the last notification (at %v) was not followed by any run of the real queue: observed runs %v%s", calls[len(calls)-1].tb, obs, desc())
		}
		for i, o := range obs {
			if permitted != len(runs) {
				break // with an ambiguous arrival the i-th observed run need not be the i-th run of the model
			}
			if o < runs[i].lo-time.Millisecond/2 {
				return failf("C13:"+c.Limiter+":ran-early", "real queue run %d started at %v, before the earliest permitted instant %v%s", i, o, runs[i].lo, desc())
			}
		}
	}
	return nil
}

func init() { registerReplay("C13", execC13) }

func TestC13(t *testing.T) {
	runProperty(t, "C13", genC13, execC13)
}

// ---------- the controller's own enqueue sites ----------

// C13SitesCase: notifications reach the reconciler's queue through the controller's own enqueue
// sites: informer events (partial or full) and the leader subscriber.
type C13SitesCase struct {
	IntervalMs int           `json:"intervalMs"`
	WaitMs     int           `json:"waitMs"`
	Steps      []C13SiteStep `json:"steps"`
}

// C13SiteStep ...
type C13SiteStep struct {
	Gap  int    `json:"gap"`  // per-mille of the interval since the previous step
	Site string `json:"site"` // partial (Endpoints event), full (global ConfigMap event), class (IngressClass event: asks for a full sync), leader (leader acquired)
}

func genC13Sites(t *rapid.T) C13SitesCase {
	c := C13SitesCase{IntervalMs: rapid.SampledFrom([]int{40, 60, 100}).Draw(t, "interval"), WaitMs: rapid.SampledFrom([]int{0, 0, 5}).Draw(t, "wait")}
	n := rapid.IntRange(3, 8).Draw(t, "n")
	for i := 0; i < n; i++ {
		c.Steps = append(c.Steps, C13SiteStep{
			Gap:  rapid.SampledFrom([]int{50, 200, 500, 900, 1100, 1500, 2500}).Draw(t, "gap"),
			Site: rapid.SampledFrom([]string{"partial", "full", "class", "class", "leader", "leader"}).Draw(t, "site"),
		})
	}
	return c
}

func execC13Sites(c C13SitesCase) *Failure {
	st := getStats("C13")
	interval := time.Duration(c.IntervalMs) * time.Millisecond
	wait := time.Duration(c.WaitMs) * time.Millisecond
	s, err := ctlsim.New(ctlsim.Params{})
	if err != nil {
		panic(err)
	}
	defer s.Close()
	type call struct {
		full   bool
		tb, ta time.Duration
		d      time.Duration
	}
	type run struct {
		full bool
		at   time.Duration
	}
	var mu sync.Mutex
	var calls []*call
	var runs []run
	start := time.Now()
	qr := s.QueueReconciler(1000.0/float64(c.IntervalMs), wait, func(full bool, before, after time.Time, d time.Duration) {
		mu.Lock()
		calls = append(calls, &call{full: full, tb: before.Sub(start), ta: after.Sub(start), d: d})
		mu.Unlock()
	})
	_ = qr.GetChangedObjects() // the controller has reconciled once: the watchers are running
	done := make(chan struct{})
	go func() {
		defer close(done)
		for {
			full, shutdown := qr.Next()
			if shutdown {
				return
			}
			mu.Lock()
			runs = append(runs, run{full: full, at: time.Since(start)})
			mu.Unlock()
		}
	}()
	ep := func(n int) *world.Obj {
		return &world.Obj{Kind: world.KEndpoints, NS: "a", Name: "s1", Gen: int64(n), Subsets: []world.Subset{{Ready: []world.Addr{{IP: fmt.Sprintf("10.0.0.%d", n%200+1)}}, Ports: []world.SvcPort{{Port: 8080}}}}}
	}
	cm := func(n int) *world.Obj {
		return &world.Obj{Kind: world.KConfigMap, NS: world.CtlNS, Name: "haproxy-ingress", Gen: int64(n), Data: map[string]string{"timeout-client": fmt.Sprintf("%ds", 30+n)}}
	}
	ic := func(n int) *world.Obj {
		return &world.Obj{Kind: world.KIngressClass, Name: world.OurClass, Controller: world.ControllerName, Gen: int64(n)}
	}
	at := time.Duration(0)
	leaderSteps := 0
	for i, stp := range c.Steps {
		at += interval * time.Duration(stp.Gap) / 1000
		sleepUntil(start, at)
		switch stp.Site {
		case "partial":
			qr.Dispatch("update", ep(i).ToK8s(), ep(i+1).ToK8s())
		case "full":
			qr.Dispatch("update", cm(i).ToK8s(), cm(i+1).ToK8s())
		case "class":
			// watchers of this kind ask for a full synchronization, which is the queue item of the leader's request
			qr.Dispatch("update", ic(i).ToK8s(), ic(i+1).ToK8s())
		case "leader":
			leaderSteps++
			qr.LeaderChanged(true)
		}
	}
	// every request is due by now; lateness is not a violation, so give a loaded machine time
	sleepUntil(start, at+2*interval+wait+20*time.Millisecond)
	deadline := time.Now().Add(5 * time.Second)
	for time.Now().Before(deadline) {
		mu.Lock()
		lastCall := time.Duration(-1)
		for _, cl := range calls {
			if cl.tb > lastCall {
				lastCall = cl.tb
			}
		}
		ok := len(runs) > 0 && runs[len(runs)-1].at >= lastCall
		mu.Unlock()
		if ok {
			break
		}
		time.Sleep(2 * time.Millisecond)
	}
	qr.ShutDown()
	<-done
	mu.Lock()
	defer mu.Unlock()
	desc := func() string {
		out := ""
		for i, cl := range calls {
			out += fmt.Sprintf("\n  limiter call %d (full=%v) at [%v,%v] delay %v", i, cl.full, cl.tb.Round(10*time.Microsecond), cl.ta.Round(10*time.Microsecond), cl.d.Round(10*time.Microsecond))
		}
		for i, r := range runs {
			out += fmt.Sprintf("\n  run %d (full=%v) at %v", i, r.full, r.at.Round(10*time.Microsecond))
		}
		return out
	}
	st.Case(c, leaderSteps > 0 && len(runs) >= 2, "enqueue-sites", fmt.Sprintf("interval=%dms", c.IntervalMs))
	st.Count("site_notifications", len(c.Steps))
	st.Count("site_runs", len(runs))
	// One-sided and jitter-proof. The queue de-duplicates, so requests may share a run, and timers may fire late,
	// but a run needs a request that the limiter has released: the i-th run of a kind cannot start before the i-th
	// earliest instant the limiter granted to requests of that kind. A run that an enqueue site obtained without
	// the limiter (or before the granted instant) breaks this.
	for _, kind := range []bool{false, true} {
		// Requests of the same kind are the same queue item: one that arrives while another one is clearly still
		// waiting for the instant it was granted (and is granted that same instant) is coalesced by the queue, they
		// are served by one run. A request that arrives close to the instant itself (5ms) may find the item already
		// being processed and legitimately cause a run of its own, so it counts as a grant of its own.
		var kcalls []*call
		for _, cl := range calls {
			if cl.full == kind {
				kcalls = append(kcalls, cl)
			}
		}
		sort.SliceStable(kcalls, func(i, j int) bool { return kcalls[i].tb+kcalls[i].d < kcalls[j].tb+kcalls[j].d })
		var granted []time.Duration
		coalesced := 0
		for _, cl := range kcalls {
			g := cl.tb + cl.d
			if n := len(granted); n > 0 && g-granted[n-1] < time.Millisecond/2 && cl.ta < granted[n-1]-5*time.Millisecond {
				coalesced++
				continue
			}
			granted = append(granted, g)
		}
		st.Count("site_requests_coalesced", coalesced)
		n := 0
		last := time.Duration(-1)
		for i, r := range runs {
			if r.full != kind {
				continue
			}
			last = r.at
			if n >= len(granted) {
				return failf("C13:sites:run-not-rate-limited", "reconciliation %d (full=%v) started at %v although every request of that kind granted by the rate limiter had already been served (requests that arrived while another one of the same kind was pending share its run): an enqueue site bypasses the limiter or is not coalesced (interval %v)%s", i, r.full, r.at.Round(10*time.Microsecond), interval, desc())
			}
			if r.at < granted[n]-time.Millisecond/2 {
				return failf("C13:sites:ran-early", "reconciliation %d (full=%v) started at %v; it is run number %d of its kind and the rate limiter granted the %d earliest requests of that kind the instants %v (interval %v)%s", i, r.full, r.at.Round(10*time.Microsecond), n+1, n+1, granted[:n+1], interval, desc())
			}
			n++
		}
		// nothing dropped: the last request of the kind is followed by a run, ie one that starts after the request
		// arrived (the queue keeps the earliest deadline of an item, so a request that arrives while a run of its
		// kind is due is served by that run, earlier than the instant the limiter granted to it)
		lastCall := time.Duration(-1)
		for _, cl := range calls {
			if cl.full == kind && cl.tb > lastCall {
				lastCall = cl.tb
			}
		}
		if lastCall >= 0 && last < lastCall {
			return failf("C13:sites:dropped", "the last request (full=%v), which arrived at %v, was never followed by a run of its kind%s", kind, lastCall.Round(10*time.Microsecond), desc())
		}
	}
	// spacing between the instants granted by the limiter (certain violations only)
	for i := 0; i+1 < len(calls); i++ {
		a, b := calls[i], calls[i+1]
		if (b.tb+b.d)-(a.ta+a.d) < -time.Millisecond/2 {
			// a later call may be granted the same pending instant, never an earlier one
			return failf("C13:sites:schedule-went-backwards", "limiter call %d was granted an instant before the one of call %d%s", i+1, i, desc())
		}
	}
	return nil
}

func init() { registerReplay("C13S", execC13Sites) }

func TestC13Sites(t *testing.T) {
	runPropertyAs(t, "C13", "C13S", genC13Sites, execC13Sites)
}


func dedupInts(l []int) []int {
	seen := map[int]bool{}
	var out []int
	for _, v := range l {
		if !seen[v] {
			seen[v] = true
			out = append(out, v)
		}
	}
	return out
}
