package props

import (
	"encoding/json"
	"fmt"
	"os"
	"strings"
	"testing"

	"verifharness/ctlsim"
	"verifharness/world"
)

func compactObj(o *world.Obj) string {
	c := o.Clone()
	c.Gen = 0
	b, _ := json.Marshal(c)
	return string(b)
}

// TestExplain prints a saved history case in readable form together with the
// controller's log of every step (development aid; VERIF_REPLAY=<file>).
func TestExplain(t *testing.T) {
	path := os.Getenv("VERIF_REPLAY")
	if path == "" {
		t.Skip()
	}
	data, _ := os.ReadFile(path)
	var rf ReplayFile
	if err := json.Unmarshal(data, &rf); err != nil {
		t.Fatal(err)
	}
	var c HistCase
	if err := json.Unmarshal(rf.Case, &c); err != nil {
		t.Fatal(err)
	}
	fmt.Printf("params: %+v\n", c.Params)
	for _, o := range c.Init {
		if os.Getenv("EXPLAIN_ALL") != "" || o.Kind == world.KIngress || o.Kind == world.KIngressClass || o.Kind == world.KConfigMap {
			fmt.Println("  init", compactObj(o))
		} else {
			fmt.Println("  init", o.Key())
		}
	}
	for i, b := range c.Batches {
		fmt.Printf("batch %d split=%v\n", i, c.Split[i])
		for _, op := range b {
			fmt.Println("   ", op.Op, compactObj(op.Obj))
		}
	}
	f := histRun(c, func(s *ctlsim.Sim, batch int, infos []ctlsim.StepInfo) *Failure {
		for _, in := range infos {
			fmt.Printf("--- batch %d step full=%v err=%v reloads=%d cmds=%d objects=%v\n", batch, in.FullReq, in.Err, in.Reloads, in.Cmds, in.Objects)
			for _, l := range in.Logs {
				if !strings.HasPrefix(l, "INFO-V response") {
					fmt.Println("      ", l)
				}
			}
		}
		if batch == len(c.Batches)-1 {
			f, _ := compareWithFresh(s, "X")
			if os.Getenv("EXPLAIN_FILES") != "" {
				for n, txt := range s.Files() {
					if strings.Contains(n, os.Getenv("EXPLAIN_FILES")) {
						fmt.Printf("===== %s\n%s\n", n, txt)
					}
				}
			}
			return f
		}
		return nil
	})
	if f != nil {
		msg := f.Msg
		if len(msg) > 6000 {
			msg = msg[:6000]
		}
		fmt.Println("FAILURE:", f.Signature, msg)
	} else {
		fmt.Println("no failure")
	}
}

// TestExplainC12 prints the log of every step of a saved C12 case (VERIF_REPLAY=<file>).
func TestExplainC12(t *testing.T) {
	path := os.Getenv("VERIF_REPLAY")
	if path == "" {
		t.Skip()
	}
	data, _ := os.ReadFile(path)
	var rf ReplayFile
	_ = json.Unmarshal(data, &rf)
	var c C12Case
	_ = json.Unmarshal(rf.Case, &c)
	explainSteps = true
	defer func() { explainSteps = false }()
	f := execC12(c)
	if f != nil {
		fmt.Println("FAILURE", f.Signature, f.Msg)
	}
}

var explainSteps bool
