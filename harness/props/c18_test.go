package props

import (
	"fmt"
	"regexp"
	"strings"
	"testing"

	"pgregory.net/rapid"

	"verifharness/ctlsim"
	"verifharness/hapcfg"
	"verifharness/world"
)

// C18 — external authentication fails closed.

func c18Profile() Profile {
	p := defaultProfile()
	p.MissingRefs = true
	p.GlobalCM = true
	p.Classes = false
	p.DefBackend = false
	p.EmptyHost = false
	p.GlobalKeys = []annChoice{
		{"external-has-lua", []string{"true", "true", "true", "false"}},
		{"auth-proxy", []string{"_front__auth:14415-14416", "_front__auth:14415-14415", "_front__auth:14415-14499", "_front__auth:14415-14414"}},
	}
	p.Ann = []annChoice{
		{"ssl-redirect", []string{"false", "true"}},
		{"balance-algorithm", []string{"leastconn"}},
		{"path-type", []string{"begin", "prefix", "exact"}},
		{"auth-signin", []string{"http://h1.local/signin"}},
		{"cors-enable", []string{"true"}},
	}
	p.SvcAnn = nil
	p.Paths = append(append([]string{}, basePaths...), "/oauth2")
	authURLs := []string{"http://10.0.0.9:8080/auth", "https://10.0.0.9/auth", "http://10.0.0.10/check", "http://10.0.0.11/c", "svc://s2:8000", "svc://s1:80", "svc://s9:80", "svc://s2", "svc://b/s2:8000", "http://bad host/", "ftp://10.0.0.9/x", "10.0.0.9:8080", "http://"}
	p.Bundles = []annBundle{
		{Name: "auth-url-backend", Keys: []annChoice{{"auth-url", authURLs}, {"auth-external-placement", []string{"backend", "Backend"}}}},
		{Name: "auth-url-default", Keys: []annChoice{{"auth-url", authURLs}}},
		{Name: "auth-url-frontend", Keys: []annChoice{{"auth-url", authURLs}, {"auth-external-placement", []string{"frontend"}}}},
		{Name: "oauth", Keys: []annChoice{{"oauth", []string{"oauth2_proxy", "oauth2-proxy"}}}, Path: "/oauth2"},
		{Name: "oauth-nopath", Keys: []annChoice{{"oauth", []string{"oauth2_proxy", "other"}}}},
		{Name: "oauth+url", Keys: []annChoice{{"oauth", []string{"oauth2_proxy"}}, {"auth-url", authURLs}}},
	}
	p.BundlePct = 70
	return p
}

// C18Case: a cluster state, optionally followed by a short history (the auth-proxy port
// bookkeeping is state carried from one sync to the next).
type C18Case struct {
	Params  ctlsim.Params `json:"params"`
	Objs    []*world.Obj  `json:"objs"`
	Batches [][]world.Op  `json:"batches,omitempty"`
}

var c18Kinds = []string{world.KIngress, world.KIngress, world.KIngress, world.KIngress, world.KEndpoints, world.KService, world.KConfigMap}

func genC18(t *rapid.T) C18Case {
	p18 := c18Profile()
	twinAuth := chanceT(t, "twinauth", 10)
	if twinAuth {
		// every auth-url names the same Service name and port: each namespace has a Service of that name, and each
		// declaration means the one of its own namespace
		twin := []string{rapid.SampledFrom([]string{"svc://s2:8000", "svc://s1:80"}).Draw(t, "twinurl")}
		for i := range p18.Bundles {
			for j := range p18.Bundles[i].Keys {
				if p18.Bundles[i].Keys[j].Key == "auth-url" {
					p18.Bundles[i].Keys[j].Values = twin
				}
			}
		}
	}
	g := newG(t, p18)
	g.genWorld()
	if chanceT(t, "classparams", 12) {
		// the class carries an auth-url as a default of all its ingresses (IngressClass Parameters -> ConfigMap)
		if ic := g.W.Get(world.KIngressClass, world.OurClass); ic != nil {
			ic.Params = "class-params"
			g.add(&world.Obj{Kind: world.KConfigMap, NS: world.CtlNS, Name: "class-params",
				Data: map[string]string{"auth-url": rapid.SampledFrom([]string{"http://10.0.0.9:8080/auth", "http://10.0.0.10/check", "http://bad host/"}).Draw(t, "classauth")}})
		}
	}
	twinURL := ""
	if twinAuth && len(g.P.NS) > 1 {
		// ... and the Services of that name have the same ports in every namespace
		for _, name := range g.svcs() {
			first := g.W.Get(world.KService, g.P.NS[0]+"/"+name)
			firstEP := g.W.Get(world.KEndpoints, g.P.NS[0]+"/"+name)
			for _, ns := range g.P.NS[1:] {
				svc, ep := g.W.Get(world.KService, ns+"/"+name), g.W.Get(world.KEndpoints, ns+"/"+name)
				if first == nil || svc == nil {
					continue
				}
				svc.Ports = append([]world.SvcPort{}, first.Ports...)
				if ep != nil && firstEP != nil && len(firstEP.Subsets) > 0 {
					for i := range ep.Subsets {
						ep.Subsets[i].Ports = append([]world.SvcPort{}, firstEP.Subsets[0].Ports...)
					}
				}
				if len(first.Ports) > 0 && twinURL == "" {
					twinURL = fmt.Sprintf("svc://%s:%d", name, first.Ports[0].Port)
				}
			}
		}
		if twinURL != "" {
			for _, o := range g.W.OfKind(world.KIngress) {
				if o.Ann["auth-url"] != "" {
					o.Ann["auth-url"] = twinURL
				}
			}
		}
	}
	if chanceT(t, "wide", 8) {
		// one backend published by many paths that share one authentication config, next to a path of the same
		// backend with another config (the rules of a backend name the path ids, in lines of limited length)
		n := rapid.IntRange(25, 40).Draw(t, "widepaths")
		ann := map[string]string{"auth-url": rapid.SampledFrom([]string{"http://10.0.0.9:8080/auth", "svc://s2:8000", "http://bad host/", "svc://s9:80"}).Draw(t, "wideauth")}
		if chanceT(t, "wideoauth", 25) {
			ann = map[string]string{"oauth": "oauth2_proxy"}
		}
		wide := &world.Obj{Kind: world.KIngress, NS: "a", Name: "wide", Created: 50, ClassName: sp(world.OurClass), Ann: ann}
		rule := world.Rule{Host: "wide.local"}
		for i := 0; i < n; i++ {
			rule.Paths = append(rule.Paths, world.Path{Path: fmt.Sprintf("/w%02d", i+1), Type: "Prefix", Svc: "s1", Port: "80"})
		}
		wide.Rules = []world.Rule{rule}
		g.add(wide)
		g.add(&world.Obj{Kind: world.KIngress, NS: "a", Name: "wideopen", Created: 51, ClassName: sp(world.OurClass),
			Rules: []world.Rule{{Host: "wide.local", Paths: []world.Path{{Path: "/open", Type: "Prefix", Svc: "s1", Port: "80"}}}}})
	}
	c := C18Case{Params: ctlsim.Params{Shards: rapid.SampledFrom([]int{0, 0, 2}).Draw(t, "shards")}}
	for _, o := range g.W.List() {
		c.Objs = append(c.Objs, o.Clone())
	}
	if chanceT(t, "history", 40) {
		nb := g.intn("nbatches", 1, sizeScale(5, 8))
		for b := 0; b < nb; b++ {
			var ops []world.Op
			for i, n := 0, g.intn("nops", 1, 3); i < n; i++ {
				if op, ok := g.genOp(c18Kinds); ok {
					ops = append(ops, world.Op{Op: op.Op, Obj: op.Obj.Clone()})
				}
			}
			if len(ops) > 0 {
				c.Batches = append(c.Batches, ops)
			}
		}
	}
	return c
}

// Known finding: with auth-external-placement=frontend the rule condition is
// `{ var(req.base) -m str beg 'host#/path' }`, i.e. a string match against the two
// patterns "beg" and the key, so only a request for exactly the declared path is
// intercepted; everything below a prefix/begin path is served unauthenticated.
const sigFrontendSubpath = "C18:frontend-placement-protects-exact-path-only"

// Known finding: auth-external-placement is documented with scope Path, but the
// frontend placement is resolved from the host's annotations: the first-created
// ingress of a host decides for every path of the host. A later ingress that
// declares frontend placement with other values loses its declaration in the
// host-level conflict and, not being "backend" placement either, is served
// without authentication; paths of ingresses without any auth key inherit the
// first ingress' interception.
const sigFrontendHostScoped = "C18:frontend-placement-is-host-scoped"

func ingressesOfHost(w *world.World, p ctlsim.Params, host string) []*world.Obj {
	var out []*world.Obj
	for _, o := range sortedIngresses(w, p) {
		uses := false
		for _, r := range o.Rules {
			if strings.ToLower(r.Host) == host {
				uses = true
			}
		}
		// an ingress that only lists the host under spec.tls also contributes its host-scoped annotations
		for _, t := range o.TLS {
			for _, h := range t.Hosts {
				if strings.ToLower(h) == host {
					uses = true
				}
			}
		}
		if uses {
			out = append(out, o)
		}
	}
	return out
}

func hostHasFrontendPlacement(w *world.World, p ctlsim.Params, host string) bool {
	for _, o := range ingressesOfHost(w, p, host) {
		if strings.ToLower(o.Ann["auth-external-placement"]) == "frontend" && o.Ann["auth-url"] != "" {
			return true
		}
	}
	return false
}

// frontendConflict: another ingress of the host declares different auth-url / placement values.
func frontendConflict(w *world.World, p ctlsim.Params, host string, ing *world.Obj) bool {
	for _, o := range ingressesOfHost(w, p, host) {
		if o.FullName() == ing.FullName() {
			continue
		}
		_, hasURL := o.Ann["auth-url"]
		_, hasPl := o.Ann["auth-external-placement"]
		if (hasURL && o.Ann["auth-url"] != ing.Ann["auth-url"]) || (hasPl && o.Ann["auth-external-placement"] != ing.Ann["auth-external-placement"]) {
			return true
		}
	}
	return false
}

var denyingKeys = []string{"auth-url", "oauth", "auth-type", "auth-secret", "allowlist-source-range", "whitelist-source-range", "denylist-source-range", "limit-rps", "limit-connections", "auth-tls-secret", "waf"}

// c18Result summarises one evaluation of the written configuration.
// c18ClassAuthURL: the auth-url that the ingress inherits from the Parameters (a ConfigMap of the controller's namespace)
// of the IngressClass it names in spec.ingressClassName; "" if none.
func c18ClassAuthURL(w *world.World, ing *world.Obj) string {
	if ing.ClassName == nil {
		return ""
	}
	ic := w.Get(world.KIngressClass, *ing.ClassName)
	if ic == nil || ic.Params == "" {
		return ""
	}
	cm := w.Get(world.KConfigMap, world.CtlNS+"/"+ic.Params)
	if cm == nil {
		return ""
	}
	return cm.Data["auth-url"]
}

var c18SvcURL = regexp.MustCompile(`^svc://([a-z0-9-]+/)?([a-z0-9-]+)(:[0-9a-z]+)?(/.*)?$`)

// authProxyTarget follows a helper backend of the auth proxy (_auth_<port>: one server at 127.0.0.1:<port>) to the bind of
// the auth proxy frontend that listens on that port and to the backend that frontend uses for it. "" if not resolvable.
func authProxyTarget(cfg *hapcfg.Config, helper string) string {
	port := ""
	for _, sec := range cfg.Sections {
		if sec.Kind == "backend" && sec.Name == helper {
			for _, l := range sec.Lines {
				if l.Tok[0] == "server" && len(l.Tok) > 2 {
					if i := strings.LastIndex(l.Tok[2], ":"); i >= 0 {
						port = l.Tok[2][i+1:]
					}
				}
			}
		}
	}
	if port == "" {
		return ""
	}
	for _, sec := range cfg.Sections {
		if sec.Kind != "frontend" {
			continue
		}
		id, found, nbinds := "", false, 0
		for _, l := range sec.Lines {
			if l.Tok[0] == "bind" && len(l.Tok) > 1 && strings.HasPrefix(l.Tok[1], "127.0.0.1:") {
				nbinds++
				if l.Tok[1] == "127.0.0.1:"+port {
					found = true
					for i, t := range l.Tok {
						if t == "id" && i+1 < len(l.Tok) {
							id = l.Tok[i+1]
						}
					}
				}
			}
		}
		if !found {
			continue
		}
		for _, l := range sec.Lines {
			if l.Tok[0] != "use_backend" || len(l.Tok) < 2 {
				continue
			}
			if len(l.Tok) == 2 && nbinds == 1 {
				return l.Tok[1]
			}
			for i, t := range l.Tok {
				if t == "so_id" && i+1 < len(l.Tok) && l.Tok[i+1] == id && id != "" {
					return l.Tok[1]
				}
			}
		}
	}
	return ""
}

type c18Result struct {
	protectedReqs, unprotectedReqs, incon, dishonoured int
	hasProtected, hasUnprotected                       bool
}

// c18Eval evaluates the configuration the controller has written for the cluster state objs.
func c18Eval(s *ctlsim.Sim, objs []*world.Obj, params ctlsim.Params) (*Failure, c18Result) {
	var r c18Result
	w := world.FromList(objs)
	cfg, _ := hapcfg.LoadDir(s.CfgDir())
	ref := refBuild(w, params)
	ingByName := map[string]*world.Obj{}
	for _, o := range w.OfKind(world.KIngress) {
		ingByName[o.FullName()] = o
	}
	reqs, _ := requestsFor(objs)
	reqs, _ = dropAmbiguous(objs, reqs)
	// every request also as a CORS preflight: authentication rules must not depend on the method
	for _, rq := range append([]hapcfg.Request{}, reqs...) {
		rq.Method = "OPTIONS"
		reqs = append(reqs, rq)
	}
	for _, rq := range reqs {
		host := strings.ToLower(strings.SplitN(rq.Host, ":", 2)[0])
		if _, declared := ref.Hosts[host]; !declared || (rq.HTTPS && !ref.TLS[host]) {
			continue
		}
		ws := ref.winners(host, rq.Path)
		if len(ws) != 1 {
			continue // no rule of this host, or no documented single winner
		}
		rule := ws[0]
		ing := ingByName[rule.Ing]
		authURL, hasURL := ing.Ann["auth-url"]
		_, hasOAuth := ing.Ann["oauth"]
		classURL := c18ClassAuthURL(w, ing)
		if !hasURL && classURL != "" {
			// the Parameters of the IngressClass named by spec.ingressClassName are defaults of every ingress of the class
			authURL, hasURL = classURL, true
		}
		protected := (hasURL && authURL != "") || hasOAuth
		res := cfg.Route(rq)
		if res.Inconclusive() {
			r.incon++
			continue
		}
		if res.Backend != "" && res.Backend != rule.Back.ID {
			continue // routing disagreement is C03's business
		}
		if protected {
			r.hasProtected = true
			r.protectedReqs++
			// oauth proxies' own endpoints are exempt
			prefix := strings.TrimRight(ing.Ann["oauth-uri-prefix"], "/")
			if prefix == "" {
				prefix = "/oauth2"
			}
			if hasOAuth && !(hasURL && authURL != "") && strings.HasPrefix(rq.Path, prefix+"/") {
				continue
			}
			if res.Final == nil {
				var eff []string
				for _, e := range res.Effects {
					eff = append(eff, e.Raw)
				}
				sig := "C18:served-unauthenticated"
				if strings.ToLower(ing.Ann["auth-external-placement"]) == "frontend" && hasURL && authURL != "" && rq.Path != rule.Path {
					// known finding: the frontend condition `-m str <method> '<key>'` is an exact match
					sig = sigFrontendSubpath
				} else if strings.ToLower(ing.Ann["auth-external-placement"]) == "frontend" && hasURL && authURL != "" && frontendConflict(w, params, host, ing) {
					sig = sigFrontendHostScoped
				} else if hasOAuth && hasURL {
					sig = "C18:served-unauthenticated:oauth-with-auth-url"
				}
				if knownSkip("C18", sig) {
					continue
				}
				return failf2(r, sig, "request %s matches rule %v of ingress %s (annotations %v) which declares external authentication, but it reaches the servers of %s without deny and without a preceding auth interception; effects: %v\ntrace:\n  %s",
					rq, rule.C04Rule, rule.Ing, ing.Ann, res.Backend, eff, strings.Join(res.Trace, "\n  "))
			}
			intercepted := false
			for _, e := range res.Effects {
				if e.Kind == "lua.auth-intercept" {
					intercepted = true
					// oauth (calls to <uri-prefix>/auth; auth-url calls of other declarations on the same host are not
					// this rule's business): the proxy is the backend that serves <uri-prefix> in the namespace of the declaration; a
					// namespace without one cannot honour the declaration (denied), it is never the proxy of another tenant
					if f := strings.Fields(e.Raw); hasOAuth && !(hasURL && authURL != "") {
						for i, tok := range f {
							if tok == "lua.auth-intercept" && i+2 < len(f) && f[i+2] == prefix+"/auth" && !strings.HasPrefix(f[i+1], ing.NS+"_") {
								return failf2(r, "C18:oauth-intercepted-by-foreign-namespace", "request %s matches rule %v of ingress %s (annotations %v) which declares oauth; the authentication call goes to backend %s, which is not a backend of namespace %s: %q",
									rq, rule.C04Rule, rule.Ing, ing.Ann, f[i+1], ing.NS, e.Raw)
							}
						}
					}
				}
			}
			if !intercepted {
				r.dishonoured++
			}
			// auth-url svc://name:port names a Service of the namespace of the declaration: the helper backend that the
			// interception calls must lead, through the auth proxy frontend, to a backend of that very Service
			if m := c18SvcURL.FindStringSubmatch(authURL); m != nil && hasURL && !hasOAuth && !hostHasFrontendPlacement(w, params, host) {
				ns := ing.NS
				if m[1] != "" {
					ns = strings.TrimSuffix(m[1], "/")
				}
				var calls []string
				for _, e := range res.Effects {
					if e.Kind == "lua.auth-intercept" {
						if f := strings.Fields(e.Raw); len(f) > 2 {
							for i, tok := range f {
								if tok == "lua.auth-intercept" && i+1 < len(f) {
									calls = append(calls, f[i+1])
								}
							}
						}
					}
				}
				if len(calls) == 1 {
					if authProxyTarget(cfg, calls[0]) != "" {
						getStats("C18").Count("auth_call_targets_checked", 1)
					}
					if target := authProxyTarget(cfg, calls[0]); target != "" && !strings.HasPrefix(target, ns+"_"+m[2]+"_") {
						return failf2(r, "C18:auth-call-reaches-another-service", "request %s matches rule %v of ingress %s with auth-url %s; its authentication call goes to %s, which the auth proxy frontend sends to backend %s - not a backend of Service %s/%s",
							rq, rule.C04Rule, rule.Ing, authURL, calls[0], target, ns, m[2])
					}
				}
			}
			continue
		}
		// two-sided: a path without any access-restricting key must not be denied
		restricted := false
		for _, k := range denyingKeys {
			if _, ok := ing.Ann[k]; ok {
				restricted = true
			}
		}
		if classURL != "" {
			restricted = true
		}
		if restricted {
			continue
		}
		r.hasUnprotected = true
		r.unprotectedReqs++
		if (res.Final != nil && res.Final.Kind == "deny" || len(res.Effects) > 0) && hostHasFrontendPlacement(w, params, host) && knownSkip("C18", sigFrontendHostScoped) {
			continue
		}
		if res.Final != nil && res.Final.Kind == "deny" {
			return failf2(r, "C18:unprotected-path-denied", "request %s matches rule %v of ingress %s which declares no authentication, but it is denied by %q", rq, rule.C04Rule, rule.Ing, res.Final.Raw)
		}
		for _, e := range res.Effects {
			if e.Kind == "lua.auth-intercept" {
				return failf2(r, "C18:unprotected-path-intercepted", "request %s matches rule %v of ingress %s which declares no authentication, but %q applies to it", rq, rule.C04Rule, rule.Ing, e.Raw)
			}
		}
	}
	return nil, r
}

func failf2(r c18Result, sig, format string, args ...interface{}) (*Failure, c18Result) {
	return failf(sig, format, args...), r
}

func execC18(c C18Case) *Failure {
	st := getStats("C18")
	w := world.FromList(c.Objs)
	s, steps, err := freshSim(c.Params, c.Objs)
	if err != nil {
		panic(err)
	}
	defer s.Close()
	if e := stepErrors(steps); e != nil {
		return failf("C18:update-error", "update failed: %v", e)
	}
	f, r := c18Eval(s, c.Objs, c.Params)
	for i, ops := range c.Batches {
		if f != nil {
			break
		}
		if err := s.Apply(ops); err != nil {
			panic(fmt.Sprintf("batch %d: %v", i, err))
		}
		more := s.Reconcile()
		if e := stepErrors(more); e != nil {
			return failf("C18:update-error", "batch %d: update failed: %v", i, e)
		}
		w = s.World
		var r2 c18Result
		f, r2 = c18Eval(s, s.World.List(), c.Params)
		if f != nil {
			f.Msg = fmt.Sprintf("after batch %d of the history: %s", i, f.Msg)
		}
		r.protectedReqs += r2.protectedReqs
		r.unprotectedReqs += r2.unprotectedReqs
		r.incon += r2.incon
		r.dishonoured += r2.dishonoured
		r.hasProtected = r.hasProtected || r2.hasProtected
		r.hasUnprotected = r.hasUnprotected || r2.hasUnprotected
	}
	labels := []string{}
	if r.hasProtected {
		labels = append(labels, "has-protected-path")
	}
	if r.hasProtected && r.hasUnprotected {
		labels = append(labels, "protected-and-unprotected")
	}
	if r.dishonoured > 0 {
		labels = append(labels, "declaration-not-honoured->deny")
	}
	for _, o := range w.OfKind(world.KIngress) {
		if strings.ToLower(o.Ann["auth-external-placement"]) == "frontend" && o.Ann["auth-url"] != "" {
			labels = append(labels, "frontend-placement")
		}
		if _, ok := o.Ann["oauth"]; ok {
			labels = append(labels, "oauth")
		}
	}
	if len(c.Batches) > 0 {
		labels = append(labels, "with-history")
	}
	st.Case(c, r.hasProtected && r.hasUnprotected, dedup(labels)...)
	st.Count("requests_protected", r.protectedReqs)
	st.Count("requests_unprotected", r.unprotectedReqs)
	st.Count("requests_denied_because_unusable", r.dishonoured)
	st.Count("requests_inconclusive", r.incon)
	_ = fmt.Sprint
	return f
}

func init() { registerReplay("C18", execC18) }

func TestC18(t *testing.T) {
	runProperty(t, "C18", genC18, execC18)
}
