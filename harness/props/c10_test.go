package props

import (
	"fmt"
	"sort"
	"strconv"
	"strings"
	"testing"

	"pgregory.net/rapid"

	"verifharness/ctlsim"
	"verifharness/hapcfg"
	"verifharness/world"
)

// C10 — Gateway API routes attach only where class, listener and namespace rules allow.

const gwGroup = "gateway.networking.k8s.io"

// C10Case: a cluster state, optionally followed by a short history of Gateway API changes (class ownership,
// gateway class, routes coming and going): what was admitted before must not be remembered.
type C10Case struct {
	Params  ctlsim.Params `json:"params"`
	Objs    []*world.Obj  `json:"objs"`
	Batches [][]world.Op  `json:"batches,omitempty"`
}

func genC10(t *rapid.T) C10Case {
	g := newG(t, Profile{NS: []string{"a", "b"}, MaxReady: 2})
	// namespaces with labels (for Selector)
	nsLabels := func(name string) map[string]string {
		l := map[string]string{"env": g.pick("env"+name, []string{"prod", "dev"})}
		if g.chance("tier"+name, 50) {
			l["tier"] = g.pick("tierv"+name, []string{"web", "db"})
		}
		return l
	}
	g.add(&world.Obj{Kind: world.KNamespace, Name: "a", Labels: nsLabels("a")})
	g.add(&world.Obj{Kind: world.KNamespace, Name: "b", Labels: nsLabels("b")})
	g.add(&world.Obj{Kind: world.KGatewayClass, Name: "ours", Controller: world.ControllerName})
	if g.chance("foreignclass", 70) {
		g.add(&world.Obj{Kind: world.KGatewayClass, Name: "foreign", Controller: "example.com/gw"})
	}
	// services and endpoints
	for _, ns := range g.P.NS {
		for _, s := range svcNames() {
			if g.chance("nosvc", 12) {
				continue
			}
			svc := g.add(&world.Obj{Kind: world.KService, NS: ns, Name: s, Ports: append([]world.SvcPort{}, rapid.SampledFrom(svcPortLayouts).Draw(g.t, "ports")...)})
			if !g.chance("noep", 10) {
				g.add(g.genEndpoints(svc))
			}
		}
	}
	// gateways
	ngw := g.intn("ngw", 1, 3)
	var gws []*world.Obj
	for i := 0; i < ngw; i++ {
		gw := &world.Obj{Kind: world.KGateway, NS: g.pick("gwns", g.P.NS), Name: fmt.Sprintf("gw%d", i+1), GW: &world.GatewaySpec{
			Class: g.pick("gwclass", []string{"ours", "ours", "ours", "foreign", "missing"}),
		}}
		nl := g.intn("nlisteners", 1, 3)
		for j := 0; j < nl; j++ {
			l := world.Listener{Name: fmt.Sprintf("l%d", j+1), Port: g.intn("lport", 0, 2) + 7000, Protocol: "HTTP"}
			switch g.intn("lhost", 0, 5) {
			case 0:
				l.Hostname = sp("*")
			case 1:
				l.Hostname = sp("gw.local")
			case 2:
				l.Hostname = sp("")
			}
			l.From = g.pick("from", []string{"Same", "Same", "All", "Selector"})
			if l.From == "Selector" {
				switch g.intn("selform", 0, 3) {
				case 0, 1:
					l.Selector = map[string]string{"env": g.pick("selenv", []string{"prod", "dev"})}
				case 2: // expressions only
					l.SelExprs = []world.SelExpr{{Key: "env", Op: g.pick("selop", []string{"In", "NotIn", "Exists", "DoesNotExist"}), Values: []string{g.pick("selval", []string{"prod", "dev"})}}}
				default: // both
					l.Selector = map[string]string{"env": g.pick("selenv", []string{"prod", "dev"})}
					l.SelExprs = []world.SelExpr{{Key: "tier", Op: g.pick("selop", []string{"In", "NotIn", "Exists", "DoesNotExist"}), Values: []string{"web"}}}
				}
				for i := range l.SelExprs {
					if l.SelExprs[i].Op == "Exists" || l.SelExprs[i].Op == "DoesNotExist" {
						l.SelExprs[i].Values = nil
					}
				}
			}
			switch g.intn("kinds", 0, 8) {
			case 4: // the empty group is the core API group, not the Gateway API's: nothing of the Gateway API is allowed
				l.Kinds = []world.RouteKind{{Group: sp(""), Kind: "HTTPRoute"}}
			case 5:
				l.Kinds = []world.RouteKind{{Group: sp(""), Kind: "TCPRoute"}, {Group: sp(gwGroup), Kind: "TCPRoute"}}
			case 0:
				l.Kinds = []world.RouteKind{{Kind: "HTTPRoute"}}
			case 1:
				l.Kinds = []world.RouteKind{{Kind: "TCPRoute"}}
			case 2:
				l.Kinds = []world.RouteKind{{Group: sp(gwGroup), Kind: "HTTPRoute"}, {Kind: "TCPRoute"}}
			case 3:
				l.Kinds = []world.RouteKind{{Group: sp("example.com"), Kind: "HTTPRoute"}}
			}
			gw.GW.Listeners = append(gw.GW.Listeners, l)
		}
		gws = append(gws, g.add(gw))
	}
	// routes
	nrt := g.intn("nroutes", 1, 4)
	for i := 0; i < nrt; i++ {
		kind := world.KHTTPRoute
		if g.chance("tcproute", 25) {
			kind = world.KTCPRoute
		}
		rt := &world.Obj{Kind: kind, NS: g.pick("rtns", g.P.NS), Name: fmt.Sprintf("r%d", i+1), Created: g.intn("created", 0, 2), RT: &world.RouteSpec{}}
		np := g.intn("nparents", 1, 2)
		for j := 0; j < np; j++ {
			gw := gws[g.intn("parentgw", 0, len(gws)-1)]
			p := world.ParentRef{Name: gw.Name}
			switch g.intn("parentns", 0, 3) {
			case 0:
				p.NS = sp(gw.NS)
			case 1:
				p.NS = sp(g.pick("pns", g.P.NS))
			}
			if g.chance("section", 35) {
				p.Section = sp(g.pick("sectionname", []string{"l1", "l2", "l3", "nope"}))
			}
			switch g.intn("parentkind", 0, 7) {
			case 0:
				p.Kind = sp("Gateway")
				p.Group = sp(gwGroup)
			case 1:
				p.Kind = sp("Service")
				p.Group = sp("")
			case 2:
				p.Group = sp("")
			}
			if g.chance("danglinggw", 8) {
				p.Name = "nogw"
			}
			rt.RT.Parents = append(rt.RT.Parents, p)
		}
		if kind == world.KHTTPRoute {
			nh := g.intn("nhostnames", 0, 2)
			for j := 0; j < nh; j++ {
				rt.RT.Hostnames = append(rt.RT.Hostnames, g.pick("rthost", []string{"h1.local", "h2.local", "h3.local"}))
			}
			rt.RT.Hostnames = dedup(rt.RT.Hostnames)
		}
		nr := g.intn("nrules", 1, 2)
		for j := 0; j < nr; j++ {
			rule := world.RouteRule{}
			if kind == world.KHTTPRoute {
				nm := g.intn("nmatches", 0, 2)
				for k := 0; k < nm; k++ {
					m := world.Match{Type: g.pick("mtype", []string{"", "PathPrefix", "Exact"}), Value: g.pick("mvalue", []string{"", "/", "/app", "/app/sub", "/b"})}
					if g.chance("mheaders", 25) {
						// a match with header conditions is another match than the same path without them
						m.Headers = map[string]string{g.pick("mhname", []string{"x-canary", "x-env"}): g.pick("mhvalue", []string{"true", "dev"})}
						if g.chance("mplain", 50) {
							rule.Matches = append(rule.Matches, world.Match{Type: m.Type, Value: m.Value})
						}
					}
					rule.Matches = append(rule.Matches, m)
				}
			}
			nb := g.intn("nbackrefs", 1, 2)
			for k := 0; k < nb; k++ {
				b := world.BackRef{Name: g.pick("bsvc", append(svcNames(), "s9"))}
				if !g.chance("noport", 8) {
					port := rapid.SampledFrom([]int{80, 80, 8000, 9090, 81, 1234}).Draw(g.t, "bport")
					b.Port = &port
				}
				if g.chance("weight", 60) {
					w := rapid.SampledFrom([]int{0, 1, 1, 2, 3, 10}).Draw(g.t, "bweight")
					b.Weight = &w
				}
				rule.Backends = append(rule.Backends, b)
			}
			rt.RT.Rules = append(rt.RT.Rules, rule)
		}
		g.add(rt)
	}
	c := C10Case{Params: ctlsim.Params{Gateway: true, Shards: rapid.SampledFrom([]int{0, 0, 2}).Draw(t, "shards")}}
	// a cluster that serves the Gateway API as v1beta1 only (the admission rules are the same)
	c.Params.GatewayB1 = chanceT(t, "gatewayb1", 35)
	for _, o := range g.W.List() {
		c.Objs = append(c.Objs, o.Clone())
	}
	if chanceT(t, "history", 45) {
		orig := map[string]*world.Obj{}
		for _, o := range c.Objs {
			orig[o.Key()] = o
		}
		nb := g.intn("nbatches", 1, sizeScale(4, 7))
		for b := 0; b < nb; b++ {
			var ops []world.Op
			for i, n := 0, g.intn("nops", 1, 2); i < n; i++ {
				var op world.Op
				switch g.intn("gwop", 0, 5) {
				case 0, 1: // the class changes hands, disappears, comes back
					name := g.pick("gcname", []string{"ours", "ours", "foreign"})
					cur := g.W.Get(world.KGatewayClass, name)
					switch {
					case cur == nil:
						op = world.Op{Op: "create", Obj: &world.Obj{Kind: world.KGatewayClass, Name: name, Controller: g.pick("gcctl", []string{world.ControllerName, "example.com/gw"})}}
					case g.chance("gcdel", 40):
						op = world.Op{Op: "delete", Obj: cur.Clone()}
					default:
						n := cur.Clone()
						if n.Controller == world.ControllerName {
							n.Controller = "example.com/gw"
						} else {
							n.Controller = world.ControllerName
						}
						op = world.Op{Op: "update", Obj: n}
					}
				case 2: // a gateway moves to another class
					gws := g.W.OfKind(world.KGateway)
					if len(gws) == 0 {
						continue
					}
					n := gws[g.intn("whichgw", 0, len(gws)-1)].Clone()
					n.GW.Class = g.pick("gwclass", []string{"ours", "foreign", "missing"})
					op = world.Op{Op: "update", Obj: n}
				default: // an object leaves, or one that left comes back as it was
					var present, gone []*world.Obj
					epOp := g.chance("epop", 50)
					// mostly the Endpoints of a service that some route references
					epRefOnly := g.chance("eprefonly", 75)
					refSvc := map[string]bool{}
					for _, o := range c.Objs {
						if o.RT != nil {
							for _, r := range o.RT.Rules {
								for _, b := range r.Backends {
									refSvc[o.NS+"/"+b.Name] = true
								}
							}
						}
					}
					for _, o := range c.Objs {
						// (also the Endpoints / Service objects the routes reference: a route admitted while the endpoints
						// of its service do not exist yet gets its servers when they arrive)
						if o.Kind != world.KHTTPRoute && o.Kind != world.KTCPRoute && o.Kind != world.KGateway && o.Kind != world.KEndpoints && o.Kind != world.KService {
							continue
						}
						if (o.Kind == world.KEndpoints || o.Kind == world.KService) != epOp {
							continue
						}
						if epOp && epRefOnly && !(o.Kind == world.KEndpoints && refSvc[o.NS+"/"+o.Name]) {
							continue
						}
						if g.W.Objs[o.Key()] != nil {
							present = append(present, g.W.Objs[o.Key()])
						} else {
							gone = append(gone, o)
						}
					}
					if len(gone) > 0 && (len(present) == 0 || g.chance("restore", 50)) {
						op = world.Op{Op: "create", Obj: gone[g.intn("whichgone", 0, len(gone)-1)].Clone()}
					} else if len(present) > 0 {
						op = world.Op{Op: "delete", Obj: present[g.intn("whichpresent", 0, len(present)-1)].Clone()}
					} else {
						continue
					}
				}
				if _, _, err := g.W.Apply(op); err != nil {
					panic(fmt.Sprintf("generator produced inapplicable op %v: %v", op, err))
				}
				ops = append(ops, world.Op{Op: op.Op, Obj: op.Obj.Clone()})
			}
			if len(ops) > 0 {
				c.Batches = append(c.Batches, ops)
			}
		}
	}
	return c
}

// ---- reference evaluation of the Gateway API admission rules ----

type gwBackend struct {
	ID      string
	Servers map[string]bool // ip:port -> weight > 0
}

// gwHdrRule is an admitted match that carries header conditions.
type gwHdrRule struct {
	C04Rule
	Headers map[string]string
	Back    string
}

func gwHeaderKey(h map[string]string) string {
	var l []string
	for k, v := range h {
		l = append(l, strings.ToLower(k)+"="+v)
	}
	sort.Strings(l)
	return strings.Join(l, ",")
}

// gwPathMatches: Exact is the whole path, PathPrefix matches path elements.
func gwPathMatches(r C04Rule, path string) bool {
	if r.Type == "exact" {
		return path == r.Path
	}
	pfx := strings.TrimSuffix(r.Path, "/")
	return path == pfx || strings.HasPrefix(path, pfx+"/")
}

type gwRef struct {
	Hosts    map[string][]refRule   // "" = default host
	HdrRules map[string][]gwHdrRule // matches with header conditions
	Backends map[string]*gwBackend  // id -> servers
	TCP      map[int]string         // port -> backend id
	Admitted int
	Rejected map[string]int // reason -> count
}

func gwSortedRoutes(w *world.World, kind string) []*world.Obj {
	out := w.OfKind(kind)
	sort.SliceStable(out, func(i, j int) bool {
		if out[i].Created != out[j].Created {
			return out[i].Created < out[j].Created
		}
		return out[i].FullName() < out[j].FullName()
	})
	return out
}

// gwAdmit: the (route, parentRef, listener) combinations the Gateway API rules admit.
func gwAdmit(w *world.World, rt *world.Obj, kind string, reject func(string)) []struct {
	GW *world.Obj
	L  world.Listener
} {
	var out []struct {
		GW *world.Obj
		L  world.Listener
	}
	for _, p := range rt.RT.Parents {
		group, pkind := gwGroup, "Gateway"
		if p.Group != nil && *p.Group != "" {
			group = *p.Group
		}
		if p.Kind != nil && *p.Kind != "" {
			pkind = *p.Kind
		}
		if group != gwGroup || pkind != "Gateway" {
			reject("parent-kind")
			continue
		}
		ns := rt.NS
		if p.NS != nil && *p.NS != "" {
			ns = *p.NS
		}
		gw := w.Get(world.KGateway, ns+"/"+p.Name)
		if gw == nil {
			reject("no-gateway")
			continue
		}
		cls := w.Get(world.KGatewayClass, gw.GW.Class)
		if cls == nil || cls.Controller != world.ControllerName {
			reject("class")
			continue
		}
		for _, l := range gw.GW.Listeners {
			if p.Section != nil && *p.Section != l.Name {
				reject("section")
				continue
			}
			if len(l.Kinds) > 0 {
				ok := false
				for _, k := range l.Kinds {
					if (k.Group == nil || *k.Group == gwGroup) && k.Kind == kind {
						ok = true
					}
				}
				if !ok {
					reject("kind")
					continue
				}
			}
			switch l.From {
			case "All":
			case "Selector":
				nsObj := w.Get(world.KNamespace, rt.NS)
				match := nsObj != nil
				if match {
					for k, v := range l.Selector {
						if nsObj.Labels[k] != v {
							match = false
						}
					}
					for _, e := range l.SelExprs {
						if !e.Matches(nsObj.Labels) {
							match = false
						}
					}
				}
				if !match {
					reject("namespace-selector")
					continue
				}
			default: // Same
				if rt.NS != gw.NS {
					reject("namespace-same")
					continue
				}
			}
			out = append(out, struct {
				GW *world.Obj
				L  world.Listener
			}{gw, l})
		}
	}
	return out
}

func gwResolveBackend(w *world.World, rt *world.Obj, id string, refs []world.BackRef) *gwBackend {
	b := &gwBackend{ID: id, Servers: map[string]bool{}}
	resolved := 0
	for _, br := range refs {
		if br.Port == nil {
			continue
		}
		svc := w.Get(world.KService, rt.NS+"/"+br.Name)
		if svc == nil {
			continue
		}
		sp := refSvcPort(svc, strconv.Itoa(*br.Port))
		if sp == nil {
			continue
		}
		ep := w.Get(world.KEndpoints, rt.NS+"/"+br.Name)
		if ep == nil {
			continue
		}
		resolved++
		weight := 1
		if br.Weight != nil {
			weight = *br.Weight
		}
		for _, ss := range ep.Subsets {
			for _, pp := range ss.Ports {
				if sp.Name != "" && sp.Name != pp.Name {
					continue
				}
				for _, a := range ss.Ready {
					key := fmt.Sprintf("%s:%d", a.IP, pp.Port)
					b.Servers[key] = b.Servers[key] || weight > 0
				}
			}
		}
	}
	if resolved == 0 {
		return nil
	}
	return b
}

func gwBuild(w *world.World) *gwRef {
	r := &gwRef{Hosts: map[string][]refRule{}, HdrRules: map[string][]gwHdrRule{}, Backends: map[string]*gwBackend{}, TCP: map[int]string{}, Rejected: map[string]int{}}
	reject := func(why string) { r.Rejected[why]++ }
	declared := func(host string, rule C04Rule) bool {
		for _, e := range r.Hosts[host] {
			if e.C04Rule == rule {
				return true
			}
		}
		return false
	}
	for _, rt := range gwSortedRoutes(w, world.KHTTPRoute) {
		for _, adm := range gwAdmit(w, rt, "HTTPRoute", reject) {
			r.Admitted++
			for i, rule := range rt.RT.Rules {
				id := fmt.Sprintf("%s_%s__rule%d", rt.NS, rt.Name, i)
				be := r.Backends[id]
				if be == nil {
					be = gwResolveBackend(w, rt, id, rule.Backends)
					if be == nil {
						continue
					}
					r.Backends[id] = be
				}
				var hostnames []string
				if adm.L.Hostname == nil || *adm.L.Hostname == "" || *adm.L.Hostname == "*" {
					hostnames = rt.RT.Hostnames
					if len(hostnames) == 0 {
						hostnames = []string{"*"}
					}
				} else {
					hostnames = []string{*adm.L.Hostname}
				}
				matches := rule.Matches
				if len(matches) == 0 {
					matches = []world.Match{{}}
				}
				for _, m := range matches {
					path := m.Value
					if path == "" {
						path = "/"
					}
					typ := "prefix"
					if m.Type == "Exact" {
						typ = "exact"
					}
					for _, h := range hostnames {
						host := strings.ToLower(h)
						if host == "*" {
							host = ""
						}
						cr := C04Rule{Host: host, Path: path, Type: typ}
						if len(m.Headers) > 0 {
							// a match with header conditions: redeclared only if path, type and conditions are the same
							key := gwHeaderKey(m.Headers)
							dup := false
							for _, e := range r.HdrRules[host] {
								if e.C04Rule == cr && gwHeaderKey(e.Headers) == key {
									dup = true
								}
							}
							if !dup {
								r.HdrRules[host] = append(r.HdrRules[host], gwHdrRule{C04Rule: cr, Headers: m.Headers, Back: id})
							}
							continue
						}
						if declared(host, cr) {
							continue
						}
						r.Hosts[host] = append(r.Hosts[host], refRule{C04Rule: cr, Back: &refBackend{ID: id}, Ing: rt.FullName()})
					}
				}
			}
		}
	}
	for _, rt := range gwSortedRoutes(w, world.KTCPRoute) {
		for _, adm := range gwAdmit(w, rt, "TCPRoute", reject) {
			r.Admitted++
			for i, rule := range rt.RT.Rules {
				id := fmt.Sprintf("%s_%s__tcprule%d", rt.NS, rt.Name, i)
				be := r.Backends[id]
				if be == nil {
					be = gwResolveBackend(w, rt, id, rule.Backends)
					if be == nil {
						continue
					}
					r.Backends[id] = be
				}
				if _, taken := r.TCP[adm.L.Port]; !taken {
					r.TCP[adm.L.Port] = id
				}
			}
		}
	}
	return r
}

func execC10(c C10Case) *Failure {
	st := getStats("C10")
	s, steps, err := freshSim(c.Params, c.Objs)
	if err != nil {
		panic(err)
	}
	defer s.Close()
	if e := stepErrors(steps); e != nil {
		return failf("C10:update-error", "update failed: %v", e)
	}
	f, ref := c10Eval(s, world.FromList(c.Objs))
	admitted, rejOther, tcp := ref.Admitted, 0, len(ref.TCP)
	labels := map[string]bool{}
	collect := func(ref *gwRef) {
		for why, n := range ref.Rejected {
			labels["rejected:"+why] = true
			if why != "class" {
				rejOther += n
			}
		}
	}
	collect(ref)
	for i, ops := range c.Batches {
		if f != nil {
			break
		}
		if err := s.Apply(ops); err != nil {
			panic(fmt.Sprintf("batch %d: %v", i, err))
		}
		if e := stepErrors(s.Reconcile()); e != nil {
			return failf("C10:update-error", "batch %d: update failed: %v", i, e)
		}
		var r2 *gwRef
		f, r2 = c10Eval(s, s.World)
		if f != nil {
			f.Msg = fmt.Sprintf("after batch %d of the history: %s", i, f.Msg)
		}
		admitted += r2.Admitted
		tcp += len(r2.TCP)
		collect(r2)
	}
	var ls []string
	for l := range labels {
		ls = append(ls, l)
	}
	sort.Strings(ls)
	if admitted > 0 {
		ls = append(ls, "some-admitted")
	}
	if tcp > 0 {
		ls = append(ls, "tcp-route-admitted")
	}
	if len(c.Batches) > 0 {
		ls = append(ls, "with-history")
	}
	st.Case(c, admitted > 0 && rejOther > 0, ls...)
	st.Count("admitted_combinations", admitted)
	return f
}

// c10Eval compares the written configuration with the Gateway API admission rules applied to the cluster state w.
func c10Eval(s *ctlsim.Sim, w *world.World) (*Failure, *gwRef) {
	st := getStats("C10")
	cfg, perr := hapcfg.LoadDir(s.CfgDir())
	if len(perr) > 0 {
		return failf("C10:unparsable", "%v", perr), &gwRef{Rejected: map[string]int{}}
	}
	ref := gwBuild(w)
	table := &refTable{Hosts: ref.Hosts, TLS: map[string]bool{}}
	hosts := []string{"h1.local", "h2.local", "h3.local", "gw.local", "unknown.local"}
	paths := []string{"/", "/app", "/app/", "/app/sub", "/app/sub/x", "/app1", "/b", "/b/x", "/zz"}
	checked := map[string]bool{}
	reqN := 0
	for _, h := range hosts {
		for _, p := range paths {
			rq := hapcfg.Request{Host: h, Path: p}
			reqN++
			res := cfg.Route(rq)
			if res.Inconclusive() && res.Backend == "" {
				continue
			}
			allowed := table.route(false, h, p)
			ok := false
			for _, a := range allowed {
				if a.ID == res.Backend {
					ok = true
				}
			}
			if !ok {
				var ids []string
				for _, a := range allowed {
					ids = append(ids, a.ID)
				}
				sig := "C10:wrong-backend"
				if allowed[0].ID == "_error404" {
					sig = "C10:non-admitted-route-configured"
				} else if res.Backend == "_error404" {
					sig = "C10:admitted-route-missing"
				}
				return c10f(ref, failf(sig, "request %s is sent to %q; the Gateway API admission rules give %v\nrejections: %v\ntrace:\n  %s", rq, res.Backend, ids, ref.Rejected, strings.Join(res.Trace, "\n  ")))
			}
			if res.Backend == "_error404" || checked[res.Backend] {
				continue
			}
			checked[res.Backend] = true
			if f := c10Servers(cfg, ref, res.Backend); f != nil {
				return f, ref
			}
		}
	}
	// matches with header conditions: a request that carries the headers of such a match and whose path it matches
	// is answered by its backend. Judged where the Gateway API precedence (exact path, longest prefix, number of
	// header conditions) and the controller's (entries with conditions are looked up first) agree: the match is
	// declared on the request's own hostname, every match with conditions that applies leads to one backend, and
	// no match without conditions is more specific on the path.
	hdrReqs, hdrJudged := 0, 0
	var hhosts []string
	for h := range ref.HdrRules {
		hhosts = append(hhosts, h)
	}
	sort.Strings(hhosts)
	for _, h := range hhosts {
		if h == "" || strings.Contains(h, "*") {
			continue
		}
		seenSet := map[string]bool{}
		for _, owner := range ref.HdrRules[h] {
			if seenSet[gwHeaderKey(owner.Headers)] {
				continue
			}
			seenSet[gwHeaderKey(owner.Headers)] = true
			for _, p := range paths {
				var best *gwHdrRule
				same := true
				for i := range ref.HdrRules[h] {
					r := &ref.HdrRules[h][i]
					if gwHeaderKey(r.Headers) != gwHeaderKey(owner.Headers) || !gwPathMatches(r.C04Rule, p) {
						continue
					}
					if best != nil && best.Back != r.Back {
						same = false
					}
					if best == nil || (r.Type == "exact" && best.Type != "exact") || (r.Type == best.Type && len(r.Path) > len(best.Path)) {
						best = r
					}
				}
				if best == nil || !same {
					continue
				}
				hdrReqs++
				if pw := table.winners(h, p); len(pw) > 0 && best.Type != "exact" && (pw[0].Type == "exact" || len(pw[0].Path) > len(best.Path)) {
					continue
				}
				rq := hapcfg.Request{Host: h, Path: p, Headers: owner.Headers}
				res := cfg.Route(rq)
				if res.Inconclusive() {
					continue
				}
				hdrJudged++
				if res.Backend != best.Back {
					return c10f(ref, failf("C10:header-match-missing", "request %s with headers %v is sent to %q; the admitted match %v with header conditions %v of backend %s applies to it\ntrace:\n  %s",
						rq, owner.Headers, res.Backend, best.C04Rule, best.Headers, best.Back, strings.Join(res.Trace, "\n  ")))
				}
			}
		}
	}
	st.Count("header_requests", hdrReqs)
	st.Count("header_requests_judged", hdrJudged)
	// TCP services
	gotTCP := map[int]string{}
	for _, sec := range cfg.Sections {
		if sec.Kind == "frontend" && strings.HasPrefix(sec.Name, "_front_tcp_") {
			port, _ := strconv.Atoi(strings.TrimPrefix(sec.Name, "_front_tcp_"))
			for _, l := range sec.Lines {
				if l.Tok[0] == "default_backend" && len(l.Tok) > 1 {
					gotTCP[port] = l.Tok[1]
				}
			}
		}
	}
	for port, id := range ref.TCP {
		if gotTCP[port] != id {
			return c10f(ref, failf("C10:tcp-route-missing", "TCPRoute admitted on listener port %d should reach %s, the configuration has %q", port, id, gotTCP[port]))
		}
		if f := c10Servers(cfg, ref, id); f != nil {
			return f, ref
		}
	}
	for port, id := range gotTCP {
		if ref.TCP[port] == "" {
			return c10f(ref, failf("C10:tcp-non-admitted", "a TCP frontend on port %d sends to %s although no admitted TCPRoute uses that port", port, id))
		}
	}
	st.Count("requests", reqN)
	return nil, ref
}

func c10f(ref *gwRef, f *Failure) (*Failure, *gwRef) { return f, ref }

func c10Servers(cfg *hapcfg.Config, ref *gwRef, id string) *Failure {
	be := cfg.Backend(id)
	want := ref.Backends[id]
	if be == nil || want == nil {
		return failf("C10:backend-missing", "backend %s: section present=%v, expected=%v", id, be != nil, want != nil)
	}
	got := map[string]bool{}
	for _, sv := range be.Servers {
		if sv.Disabled {
			continue
		}
		got[sv.Target] = got[sv.Target] || sv.Weight > 0 // one address may be listed by two backendRefs
		if sv.Weight < 0 || sv.Weight > 256 {
			return failf("C10:weight-range", "backend %s server %s weight %d", id, sv.Target, sv.Weight)
		}
	}
	if fmt.Sprint(sortedBoolMap(got)) != fmt.Sprint(sortedBoolMap(want.Servers)) {
		return failf("C10:wrong-servers", "backend %s: servers (addr -> weight>0) are %v, the backendRefs give %v", id, sortedBoolMap(got), sortedBoolMap(want.Servers))
	}
	return nil
}

func sortedBoolMap(m map[string]bool) []string {
	var out []string
	for k, v := range m {
		out = append(out, fmt.Sprintf("%s=%v", k, v))
	}
	sort.Strings(out)
	return out
}

func init() { registerReplay("C10", execC10) }

func TestC10(t *testing.T) {
	runProperty(t, "C10", genC10, execC10)
}
