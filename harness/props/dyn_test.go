package props

import (
	"fmt"
	"sort"
	"strings"
	"verifharness/hapcfg"

	"pgregory.net/rapid"

	"verifharness/ctlsim"
	"verifharness/simhap"
	"verifharness/world"
)

// Shared machinery of C02 / C11 / C12: histories dominated by endpoint churn over
// backends with dynamic scaling, and the comparison "running HAProxy == files".

func dynProfile(preserve, bluegreen bool) Profile {
	p := defaultProfile()
	p.MissingRefs = false
	p.Classes = false
	p.DefBackend = false
	p.Pods = true
	p.GlobalCM = true
	p.MaxReady = 4
	p.GlobalKeys = []annChoice{{"drain-support", []string{"true", "false"}}}
	p.Ann = []annChoice{
		{"backend-server-naming", []string{"sequence", "ip", "pod"}},
		{"slots-min-free", []string{"0", "1", "2", "3", "6"}},
		{"backend-server-slots-increment", []string{"1", "2", "4", "8"}},
		{"initial-weight", []string{"1", "10", "100"}},
		{"affinity", []string{"cookie"}},
		{"balance-algorithm", []string{"roundrobin", "leastconn"}},
		{"ssl-redirect", []string{"false"}},
		// host scoped, and copied to the backends of the host when the configuration is synchronized
		{"auth-tls-secret", []string{"ca1"}},
		// a userlist is re-created together with its backend by every partial sync that touches the backend
		{"auth-type", []string{"basic"}},
		{"auth-secret", []string{"pw"}},
	}
	p.AuthSecret = true
	if preserve {
		p.Ann = append(p.Ann, annChoice{"session-cookie-preserve", []string{"true", "false"}}, annChoice{"session-cookie-dynamic", []string{"false"}},
			annChoice{"session-cookie-value-strategy", []string{"pod-uid", "server-name"}})
		p.Bundles = []annBundle{{Name: "cookie-pod-uid", Keys: []annChoice{{"affinity", []string{"cookie"}}, {"session-cookie-preserve", []string{"true"}},
			{"session-cookie-dynamic", []string{"false"}}, {"session-cookie-value-strategy", []string{"pod-uid"}}}}}
		p.BundlePct = 15
	}
	if bluegreen {
		p.Ann = append(p.Ann, annChoice{"blue-green-deploy", []string{"group=blue=1,group=green=3", "group=blue=0,group=green=1"}},
			// requests that name a group are sent to a server of that group: use-server rules, one per labeled server
			annChoice{"blue-green-header", []string{"X-Server:group"}},
			// a backend that is only changed by reloads, next to backends that are changed at runtime
			annChoice{"dynamic-scaling", []string{"false"}})
	}
	p.SvcAnn = nil
	p.MaxIng = 4
	p.RotateTogether = true
	return p
}

var dynKinds = []string{
	world.KEndpoints, world.KEndpoints, world.KEndpoints, world.KEndpoints, world.KEndpoints, world.KEndpoints,
	world.KSecret, world.KIngress, world.KPod,
}

// DynCase is a history plus a fault plan per batch (ordinal of runtime command -> fault).
type DynCase struct {
	Hist   HistCase         `json:"hist"`
	Faults []map[int]string `json:"faults,omitempty"`
}

func genDynHistory(t *rapid.T, p Profile, kinds []string, maxBatches int) HistCase {
	g := newG(t, p)
	g.genWorld()
	g.genRichExtras()
	params := ctlsim.Params{Shards: rapid.SampledFrom([]int{0, 0, 2, 3}).Draw(t, "shards"), SortBy: rapid.SampledFrom([]string{"", "", "name", "ip"}).Draw(t, "sortby")}
	// --enable-endpointslices-api: an Endpoints change arrives as creates / updates / deletes of EndpointSlice objects
	params.EPSlices = chanceT(t, "epslices", 20)
	c := HistCase{Params: params}
	for _, o := range g.W.List() {
		c.Init = append(c.Init, o.Clone())
	}
	nb := g.intn("nbatches", 1, maxBatches)
	for b := 0; b < nb; b++ {
		nops := g.intn("nops", 1, 3)
		ops := g.rotateTogether()
		if len(ops) > 0 {
			nops = 0
		}
		for i := 0; i < nops; i++ {
			if op, ok := g.genOp(kinds); ok {
				if op.Op != "delete" && op.Obj.Kind == world.KEndpoints {
					// the pod of a new address exists before the address is published (most of the time)
					ops = append(ops, g.ensurePods(op.Obj)...)
				}
				ops = append(ops, world.Op{Op: op.Op, Obj: op.Obj.Clone()})
			}
		}
		if len(ops) > 0 {
			c.Batches = append(c.Batches, ops)
			c.Split = append(c.Split, -1)
		}
	}
	return c
}

// ensurePods creates the Pod objects of addresses that name a pod which does not exist yet.
func (g *G) ensurePods(ep *world.Obj) []world.Op {
	var ops []world.Op
	for _, ss := range ep.Subsets {
		for i, a := range append(append([]world.Addr{}, ss.Ready...), ss.NotReady...) {
			if a.Pod == "" || g.W.Get(world.KPod, ep.NS+"/"+a.Pod) != nil || !g.chance("podexists", 80) {
				continue
			}
			op := world.Op{Op: "create", Obj: podFor(ep.NS, ep.Name, a, i)}
			if g.P.UnlabeledPods && g.chance("unlabeled", 33) {
				delete(op.Obj.Labels, "group")
			}
			if _, _, err := g.W.Apply(op); err != nil {
				panic(err)
			}
			ops = append(ops, world.Op{Op: op.Op, Obj: op.Obj.Clone()})
		}
	}
	return ops
}

// effective server state, comparable between the running process and a fresh load.
func serverView(sv *simhap.Server) string {
	if sv.Maint {
		return fmt.Sprintf("%s maint", sv.Name)
	}
	drain := sv.Drain || sv.Weight == 0
	w := sv.Weight
	if drain {
		w = 0
	}
	return fmt.Sprintf("%s %s:%d weight=%d drain=%v", sv.Name, sv.Addr, sv.Port, w, drain)
}

// runningVsFiles compares the simulated HAProxy with what loading the files now would give.
func runningVsFiles(s *ctlsim.Sim, preserveOnly bool) []string {
	running := s.Hap.Snapshot()
	disk, _ := simhap.LoadState(s.CfgDir())
	var out []string
	names := map[string]bool{}
	for b := range running.Backends {
		names[b] = true
	}
	for b := range disk.Backends {
		names[b] = true
	}
	var bs []string
	for b := range names {
		bs = append(bs, b)
	}
	sort.Strings(bs)
	for _, b := range bs {
		r, d := running.Backends[b], disk.Backends[b]
		if r == nil || d == nil {
			out = append(out, fmt.Sprintf("backend %s: running=%v files=%v", b, r != nil, d != nil))
			continue
		}
		sn := map[string]bool{}
		for n := range r {
			sn[n] = true
		}
		for n := range d {
			sn[n] = true
		}
		var ss []string
		for n := range sn {
			ss = append(ss, n)
		}
		sort.Strings(ss)
		// use-server rules are only read when the configuration is loaded
		if ru, du := useServerLines(running.Loaded, b), useServerLines(disk.Loaded, b); ru != du {
			out = append(out, fmt.Sprintf("backend %s: use-server rules of the running process [%s], of the files [%s]", b, ru, du))
		}
		preserve := false
		if be := disk.Loaded.Backend(b); be != nil {
			for _, t := range be.CookieLine {
				if t == "preserve" {
					preserve = true
				}
			}
		}
		for _, n := range ss {
			rs, ds := r[n], d[n]
			if rs == nil || ds == nil {
				out = append(out, fmt.Sprintf("backend %s server %s: running=%v files=%v", b, n, rs != nil, ds != nil))
				continue
			}
			if serverView(rs) != serverView(ds) {
				out = append(out, fmt.Sprintf("backend %s: running [%s], files [%s]", b, serverView(rs), serverView(ds)))
			}
			if preserve && !ds.Maint && rs.Cookie != ds.Cookie {
				out = append(out, fmt.Sprintf("backend %s server %s (cookie preserve): running cookie %q, files %q", b, n, rs.Cookie, ds.Cookie))
			}
		}
	}
	// certificates: crt-list as loaded vs on disk, and the PEM of every bound file
	for fe, de := range disk.CrtLists {
		re := running.CrtLists[fe]
		if fmt.Sprint(re) != fmt.Sprint(de) {
			out = append(out, fmt.Sprintf("crt-list of %s: running %v, files %v", fe, re, de))
		}
	}
	for f, dp := range disk.Certs {
		if strings.HasSuffix(f, "_fake-default.pem") {
			continue
		}
		if rp, ok := running.Certs[f]; !ok || rp != dp {
			out = append(out, fmt.Sprintf("certificate %s: running %s, files %s", f, world.FingerprintOfPEM([]byte(running.Certs[f])), world.FingerprintOfPEM([]byte(dp))))
		}
	}
	return out
}

// useServerLines returns the use-server rules of a backend section.
func useServerLines(cfg *hapcfg.Config, backend string) string {
	if cfg == nil {
		return ""
	}
	be := cfg.Backend(backend)
	if be == nil || be.Section == nil {
		return ""
	}
	var out []string
	for _, l := range be.Section.Lines {
		if l.Tok[0] == "use-server" {
			out = append(out, strings.Join(l.Tok, " "))
		}
	}
	// as a set: the controller writes the rules in endpoint order, which a dynamic update may change; rules of
	// different labels exclude each other and rules of one label all name a server of that group
	sort.Strings(out)
	return strings.Join(out, "; ")
}
