package props

import (
	"encoding/json"
	"fmt"
	"os"
	"strings"
	"testing"
)

// TestExplainWorld prints a saved WorldCase and the files the controller writes
// for it (development aid; VERIF_REPLAY=<file>, EXPLAIN_FILES=<substring>).
func TestExplainWorld(t *testing.T) {
	path := os.Getenv("VERIF_REPLAY")
	if path == "" {
		t.Skip()
	}
	data, _ := os.ReadFile(path)
	var rf ReplayFile
	if err := json.Unmarshal(data, &rf); err != nil {
		t.Fatal(err)
	}
	var c WorldCase
	if err := json.Unmarshal(rf.Case, &c); err != nil {
		t.Fatal(err)
	}
	fmt.Printf("params: %+v\n", c.Params)
	for _, o := range c.Objs {
		fmt.Println("  obj", compactObj(o))
	}
	s, steps, err := freshSim(c.Params, c.Objs)
	if err != nil {
		t.Fatal(err)
	}
	defer s.Close()
	for _, in := range steps {
		fmt.Printf("--- step full=%v err=%v\n", in.FullReq, in.Err)
		for _, l := range in.Logs {
			fmt.Println("      ", l)
		}
	}
	for n, txt := range s.Files() {
		if sub := os.Getenv("EXPLAIN_FILES"); sub != "" && strings.Contains(n, sub) {
			fmt.Printf("===== %s\n%s\n", n, txt)
		}
	}
}
