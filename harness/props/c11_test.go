package props

import (
	"fmt"
	"strconv"
	"strings"
	"testing"

	"pgregory.net/rapid"

	"verifharness/ctlsim"
	"verifharness/world"
)

// C11 — no needless reloads.

// C11Case: a history whose batches are tagged with what they contain.
type C11Case struct {
	Hist HistCase `json:"hist"`
	Tags []string `json:"tags"` // per batch: spurious | endpoints | mixed
}

func genC11(t *rapid.T) C11Case {
	p := dynProfile(false, false)
	p.NoTCPCM = true // ConfigMap based TCP services have no dynamic update: outside the statement
	g := newG(t, p)
	g.genWorld()
	g.genRichExtras()
	params := ctlsim.Params{Shards: rapid.SampledFrom([]int{0, 0, 2, 3}).Draw(t, "shards"), SortBy: rapid.SampledFrom([]string{"", "", "name", "ip"}).Draw(t, "sortby")}
	c := C11Case{Hist: HistCase{Params: params}}
	for _, o := range g.W.List() {
		c.Hist.Init = append(c.Hist.Init, o.Clone())
	}
	nb := g.intn("nbatches", 2, sizeScale(10, 16))
	touch := 0
	for b := 0; b < nb; b++ {
		var ops []world.Op
		tag := g.pick("batchkind", []string{"spurious", "endpoints", "endpoints", "endpoints", "mixed"})
		switch tag {
		case "spurious":
			n := g.intn("nspurious", 1, 3)
			for i := 0; i < n; i++ {
				kind := g.pick("spkind", []string{world.KIngress, world.KService, world.KSecret, world.KConfigMap, world.KEndpoints})
				ex := g.existing(kind)
				if kind == world.KConfigMap {
					ex = nil
					if cm := g.W.Get(kind, world.GlobalCM); cm != nil {
						ex = []*world.Obj{cm}
					}
				}
				if len(ex) == 0 {
					continue
				}
				cur := ex[g.intn("which", 0, len(ex)-1)].Clone()
				touch++
				switch kind {
				case world.KIngress, world.KService:
					if cur.RawAnn == nil {
						cur.RawAnn = map[string]string{}
					}
					cur.RawAnn["example.com/touched"] = strconv.Itoa(touch) // foreign annotation: passes the predicate, changes nothing
					if cur.Labels == nil && g.chance("label", 50) {
						cur.Labels = map[string]string{"touched": strconv.Itoa(touch)}
					}
				}
				op := world.Op{Op: "update", Obj: cur}
				if _, _, err := g.W.Apply(op); err == nil {
					ops = append(ops, world.Op{Op: "update", Obj: cur.Clone()})
				}
			}
		case "endpoints":
			n := g.intn("nep", 1, 3)
			for i := 0; i < n; i++ {
				ns, name := g.pick("epns", g.P.NS), g.pick("epname", svcNames())
				cur := g.W.Get(world.KEndpoints, ns+"/"+name)
				svc := g.W.Get(world.KService, ns+"/"+name)
				if cur == nil || svc == nil {
					continue
				}
				op := world.Op{Op: "update", Obj: g.mutateEndpoints(cur, svc)}
				if _, _, err := g.W.Apply(op); err == nil {
					ops = append(ops, world.Op{Op: "update", Obj: op.Obj.Clone()})
				}
			}
		default:
			n := g.intn("nmixed", 1, 3)
			for i := 0; i < n; i++ {
				if op, ok := g.genOp(dynKinds); ok {
					ops = append(ops, world.Op{Op: op.Op, Obj: op.Obj.Clone()})
				}
			}
		}
		if len(ops) > 0 {
			c.Hist.Batches = append(c.Hist.Batches, ops)
			c.Hist.Split = append(c.Hist.Split, -1)
			c.Tags = append(c.Tags, tag)
		}
	}
	return c
}

// upperEndpoints is an upper bound of the endpoints the backend ns_svc_target may need.
func upperEndpoints(w *world.World, ns, svcName, target string, drain bool) (int, bool) {
	svc := w.Get(world.KService, ns+"/"+svcName)
	if svc == nil {
		return 0, false
	}
	var sp *world.SvcPort
	for i := range svc.Ports {
		if svcTarget(&svc.Ports[i]) == target {
			sp = &svc.Ports[i]
		}
	}
	if sp == nil {
		return 0, false
	}
	n := 0
	ep := w.Get(world.KEndpoints, ns+"/"+svcName)
	if ep != nil {
		for _, ss := range ep.Subsets {
			for _, pp := range ss.Ports {
				if sp.Name != "" && sp.Name != pp.Name {
					continue
				}
				n += len(ss.Ready)
				if drain {
					n += len(ss.NotReady)
				}
			}
		}
	}
	if drain {
		for _, pod := range w.OfKind(world.KPod) {
			if pod.NS == ns && pod.Terminating && pod.Labels["app"] == svc.Selector["app"] {
				n++
			}
		}
	}
	return n, true
}

func execC11(c C11Case) *Failure {
	st := getStats("C11")
	type slotInfo struct{ total int }
	prevSlots := map[string]int{}
	nontrivial, lastSlotUsed, afterScaleDown := false, false, false
	spuriousChecked, epChecked := 0, 0
	steps := 0
	f := histRun(c.Hist, func(s *ctlsim.Sim, batch int, infos []ctlsim.StepInfo) *Failure {
		steps += len(infos)
		if err := stepErrors(infos); err != nil {
			return failf("C11:update-error", "batch %d: %v", batch, err)
		}
		reloads, cmds := 0, 0
		for _, in := range infos {
			reloads += in.Reloads
			cmds += in.Cmds
		}
		drain := false
		if cm := s.World.Get(world.KConfigMap, world.GlobalCM); cm != nil {
			drain = cm.Data["drain-support"] == "true"
		}
		tag := ""
		if batch >= 0 && batch < len(c.Tags) {
			tag = c.Tags[batch]
		}
		switch tag {
		case "spurious":
			spuriousChecked++
			if reloads > 0 {
				return failf("C11:spurious-event-reloads", "batch %d only re-notifies resources without changing their effective content, but HAProxy was reloaded %d time(s)\nlog:\n  %s\nhistory:\n%s", batch, reloads, strings.Join(infos[len(infos)-1].Logs, "\n  "), describeBatches(c.Hist))
			}
		case "endpoints":
			// every backend of every touched service must fit in the slots the running process had
			fits := true
			touched := map[string]bool{}
			for _, op := range c.Hist.Batches[batch] {
				touched[op.Obj.NS+"_"+op.Obj.Name+"_"] = true
			}
			for id, total := range prevSlots {
				for pre := range touched {
					if !strings.HasPrefix(id, pre) {
						continue
					}
					parts := strings.SplitN(id, "_", 3)
					n, ok := upperEndpoints(s.World, parts[0], parts[1], parts[2], drain)
					if !ok || n > total {
						fits = false
					}
					if ok && n == total {
						lastSlotUsed = true
					}
				}
			}
			if fits {
				epChecked++
				if cmds > 0 {
					nontrivial = true
				}
				if reloads > 0 {
					return failf("C11:in-capacity-endpoint-change-reloads", "batch %d only changes endpoints that fit in the existing server slots (%v), but HAProxy was reloaded\nlog:\n  %s\nhistory:\n%s", batch, prevSlots, strings.Join(infos[len(infos)-1].Logs, "\n  "), describeBatches(c.Hist))
				}
			}
		}
		// slot layout the running process has now
		state := s.Hap.Snapshot()
		cur := map[string]int{}
		for name, servers := range state.Backends {
			if strings.HasPrefix(name, "_") {
				continue
			}
			cur[name] = len(servers)
			if prev, ok := prevSlots[name]; ok && prev > len(servers) {
				afterScaleDown = true
			}
		}
		// (c) after a reload every dynamic backend is padded as configured
		if reloads > 0 {
			model := s.Instance.Config().Backends().Items()
			for name, servers := range state.Backends {
				mb := model[name]
				if mb == nil || !mb.Dynamic.DynUpdate || mb.Resolver != "" {
					continue
				}
				free := 0
				for _, sv := range servers {
					if sv.Disabled {
						free++
					}
				}
				block := mb.Dynamic.BlockSize
				if block < 1 {
					block = 1
				}
				// the reserve is the one the objects declare: where every ingress that uses the service states the same
				// slots-min-free (and the Service itself states none), that is the value of the backend
				if want, ok := declaredMinFree(s.World, name); ok && mb.Dynamic.MinFreeSlots != want {
					return failf("C11:min-free-differs", "backend %s reserves slots-min-free %d, every ingress that uses the service declares %d", name, mb.Dynamic.MinFreeSlots, want)
				}
				if free < mb.Dynamic.MinFreeSlots {
					return failf("C11:too-few-free-slots", "after the reload of batch %d backend %s has %d empty slots, slots-min-free is %d", batch, name, free, mb.Dynamic.MinFreeSlots)
				}
				if len(servers)%block != 0 {
					return failf("C11:slots-not-multiple-of-increment", "after the reload of batch %d backend %s has %d slots, not a multiple of backend-server-slots-increment %d", batch, name, len(servers), block)
				}
			}
		}
		prevSlots = cur
		return nil
	})
	labels := histLabels(c.Hist)
	if lastSlotUsed {
		labels = append(labels, "last-free-slot-consumed")
	}
	if afterScaleDown {
		labels = append(labels, "slots-shrank-at-some-reload")
	}
	if nontrivial {
		labels = append(labels, "in-capacity-change-with-commands")
	}
	st.Case(c, nontrivial, labels...)
	st.Count("reconcile_steps", steps)
	st.Count("spurious_batches_checked", spuriousChecked)
	st.Count("endpoint_batches_in_capacity", epChecked)
	_ = fmt.Sprint
	return f
}

func init() { registerReplay("C11", execC11) }

func TestC11(t *testing.T) {
	runProperty(t, "C11", genC11, execC11)
}


// declaredMinFree: the slots-min-free of a backend (named ns_service_port) when the declarations leave no doubt: all the
// ingresses of the namespace that reference the service carry the same valid value (Services carry no annotations here).
func declaredMinFree(w *world.World, backend string) (int, bool) {
	val, n := "", 0
	for _, o := range w.OfKind(world.KIngress) {
		uses := func(p *world.Path) bool {
			return p != nil && p.Svc != "" && strings.HasPrefix(backend, o.NS+"_"+p.Svc+"_")
		}
		used := uses(o.DefBack)
		for _, r := range o.Rules {
			for i := range r.Paths {
				used = used || uses(&r.Paths[i])
			}
		}
		if !used {
			continue
		}
		v := o.Ann["slots-min-free"]
		if v == "" || (n > 0 && v != val) {
			return 0, false
		}
		val = v
		n++
	}
	if n == 0 {
		return 0, false
	}
	i, err := strconv.Atoi(val)
	return i, err == nil && i >= 0
}
