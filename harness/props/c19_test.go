package props

import (
	"context"
	"net/http"
	"net/http/httptest"
	"os"
	"sync"

	"k8s.io/client-go/rest"

	ctlconfig "github.com/jcmoraisjr/haproxy-ingress/pkg/controller/config"

	"fmt"
	"strings"
	"testing"

	"pgregory.net/rapid"

	"verifharness/ctlsim"
	"verifharness/hapcfg"
	"verifharness/world"
)

// C19 — disabled snippet keywords never reach the configuration through annotations.

// C19Snippet is one config-backend annotation value and where it is placed.
type C19Snippet struct {
	On    string   `json:"on"` // ingress1, ingress2, service
	Lines []string `json:"lines"`
	Sep   string   `json:"sep"` // "\n" or "\r\n"
	// Seps, when set, gives the line break after each line but the last one (mixed LF and CRLF in one snippet)
	Seps []string `json:"seps,omitempty"`
}

// C19Case ...
type C19Case struct {
	Keywords []string     `json:"keywords"`
	Snippets []C19Snippet `json:"snippets"`
	Global   []string     `json:"global"` // lines of config-defaults in the global ConfigMap
	Shards   int          `json:"shards"`
	// Extra: snippets carried by backends that no http path leads to, each alone on its backend:
	// "tcp-ingress" (an ingress with tcp-service-port) and "default-backend-service" (annotation of the
	// Service named by --default-backend-service)
	Extra []C19Snippet `json:"extra,omitempty"`
	// CLI: when set, the deny list reaches the controller the way an operator writes it: this value of
	// --disable-config-keywords (the keywords above with blanks around the commas) is parsed by the controller's
	// own command line handling (config.CreateWithConfig)
	CLI string `json:"cli,omitempty"`
	// SameName: the tcp ingress has the namespace/name of the default backend's Service (two sources of distinct
	// kinds with the same full name)
	SameName bool `json:"sameName,omitempty"`
}

var c19Pool = []string{"server", "http-request", "acl", "use-server", "timeout", "option"}

func c19Text(s C19Snippet) string {
	if len(s.Seps) == 0 {
		return strings.Join(s.Lines, s.Sep)
	}
	out := ""
	for i, l := range s.Lines {
		out += l
		if i < len(s.Lines)-1 {
			out += s.Seps[i%len(s.Seps)]
		}
	}
	return out
}

// genC19Snippet draws the lines of one snippet; n numbers the lines of the whole case.
func genC19Snippet(t *rapid.T, on string, n *int) C19Snippet {
	sn := C19Snippet{On: on, Sep: rapid.SampledFrom([]string{"\n", "\n", "\r\n"}).Draw(t, "sep")}
	nl := rapid.IntRange(1, 5).Draw(t, "nlines")
	for j := 0; j < nl; j++ {
		*n++
		base := rapid.SampledFrom(c19Pool).Draw(t, "token")
		tok := base
		switch rapid.IntRange(0, 7).Draw(t, "variant") {
		case 0:
			tok = base + "s" // keyword as a prefix of another word
		case 1:
			tok = base[:len(base)-1] // prefix of the keyword
		case 2:
			tok = strings.ToUpper(base[:1]) + base[1:] // case variant
		}
		lead := rapid.SampledFrom([]string{"", "", " ", "\t", "  \t ", "\t\t", "\v", "\f"}).Draw(t, "lead")
		sep := rapid.SampledFrom([]string{" ", " ", "\t", "  ", " \t"}).Draw(t, "tsep")
		var rest string
		switch base {
		case "server":
			rest = fmt.Sprintf("snip%d 127.0.0.9:%d", *n, 9000+*n)
		case "http-request":
			rest = fmt.Sprintf("set-header X-Snip%d v%d", *n, *n)
		case "acl":
			rest = fmt.Sprintf("snip%d always_true", *n)
		case "use-server":
			rest = fmt.Sprintf("snip%d if FALSE", *n)
		case "timeout":
			rest = fmt.Sprintf("tunnel %ds", 100+*n)
		default:
			rest = fmt.Sprintf("snip%d", *n)
		}
		line := lead + tok + sep + rest
		if rapid.IntRange(0, 11).Draw(t, "bare") == 0 {
			line = lead + tok // token alone, keyword followed by end of line
		}
		if rapid.IntRange(0, 9).Draw(t, "emptyline") == 0 {
			sn.Lines = append(sn.Lines, "")
		}
		sn.Lines = append(sn.Lines, line)
	}
	if len(sn.Lines) > 1 && chanceT(t, "mixedbreaks", 20) {
		for range sn.Lines[1:] {
			sn.Seps = append(sn.Seps, rapid.SampledFrom([]string{"\n", "\r\n"}).Draw(t, "linebreak"))
		}
	}
	return sn
}

func genC19(t *rapid.T) C19Case {
	c := C19Case{Shards: rapid.SampledFrom([]int{0, 0, 2}).Draw(t, "shards")}
	nk := rapid.IntRange(0, 3).Draw(t, "nkeywords")
	for i := 0; i < nk; i++ {
		c.Keywords = append(c.Keywords, rapid.SampledFrom(append(append([]string{}, c19Pool...), "", "*", "Server", "serve")).Draw(t, "keyword"))
	}
	places := []string{"ingress1", "ingress2", "service"}
	ns := rapid.IntRange(1, 3).Draw(t, "nsnippets")
	n := 0
	for i := 0; i < ns; i++ {
		c.Snippets = append(c.Snippets, genC19Snippet(t, places[i], &n))
	}
	if rapid.Bool().Draw(t, "global") {
		c.Global = []string{"timeout tunnel 77s", "option dontlog-normal"}
	}
	both := chanceT(t, "extra-both", 20)
	for _, on := range []string{"tcp-ingress", "default-backend-service"} {
		if both || chanceT(t, "extra-"+on, 30) {
			c.Extra = append(c.Extra, genC19Snippet(t, on, &n))
		}
	}
	c.SameName = len(c.Extra) == 2 && rapid.Bool().Draw(t, "samename")
	if len(c.Keywords) > 0 && chanceT(t, "cli", 12) {
		for i, k := range c.Keywords {
			if i > 0 {
				c.CLI += rapid.SampledFrom([]string{",", ", ", ", ", " ,", " , "}).Draw(t, "clisep")
			}
			c.CLI += k
		}
		if c.CLI == "" {
			c.CLI = " "
		}
	}
	return c
}

func c19World(c C19Case) []*world.Obj {
	cm := &world.Obj{Kind: world.KConfigMap, NS: world.CtlNS, Name: "haproxy-ingress", Data: map[string]string{}}
	if len(c.Global) > 0 {
		cm.Data["config-defaults"] = strings.Join(c.Global, "\n")
		cm.Data["config-global"] = "tune.bufsize 16500"
	}
	svc := &world.Obj{Kind: world.KService, NS: "a", Name: "s1", Ports: []world.SvcPort{{Name: "http", Port: 80, Target: "8080"}}}
	objs := []*world.Obj{
		{Kind: world.KIngressClass, Name: world.OurClass, Controller: world.ControllerName}, cm, svc,
		{Kind: world.KEndpoints, NS: "a", Name: "s1", Subsets: []world.Subset{{Ready: []world.Addr{{IP: "10.1.1.1"}}, Ports: []world.SvcPort{{Name: "http", Port: 8080}}}}},
	}
	ing := map[string]*world.Obj{}
	for i, name := range []string{"ingress1", "ingress2"} {
		ing[name] = &world.Obj{Kind: world.KIngress, NS: "a", Name: fmt.Sprintf("i%d", i+1), Created: i, ClassName: sp(world.OurClass),
			Rules: []world.Rule{{Host: fmt.Sprintf("h%d.local", i+1), Paths: []world.Path{{Path: "/", Type: "Prefix", Svc: "s1", Port: "80"}}}}}
	}
	for _, sn := range c.Snippets {
		switch sn.On {
		case "service":
			svc.Ann = map[string]string{"config-backend": c19Text(sn)}
		default:
			ing[sn.On].Ann = map[string]string{"config-backend": c19Text(sn)}
		}
	}
	objs = append(objs, ing["ingress1"], ing["ingress2"])
	tcpIngName := "i3"
	if c.SameName {
		tcpIngName = "s3"
	}
	for _, sn := range c.Extra {
		switch sn.On {
		case "tcp-ingress":
			objs = append(objs,
				&world.Obj{Kind: world.KService, NS: "a", Name: "s2", Ports: []world.SvcPort{{Name: "http", Port: 80, Target: "8080"}}},
				&world.Obj{Kind: world.KEndpoints, NS: "a", Name: "s2", Subsets: []world.Subset{{Ready: []world.Addr{{IP: "10.1.2.1"}}, Ports: []world.SvcPort{{Name: "http", Port: 8080}}}}},
				&world.Obj{Kind: world.KIngress, NS: "a", Name: tcpIngName, Created: 3, ClassName: sp(world.OurClass),
					Ann:   map[string]string{"tcp-service-port": "7000", "config-backend": c19Text(sn)},
					Rules: []world.Rule{{Host: "h3.local", Paths: []world.Path{{Path: "/", Type: "Prefix", Svc: "s2", Port: "80"}}}}})
		case "default-backend-service":
			objs = append(objs,
				&world.Obj{Kind: world.KService, NS: "a", Name: "s3", Ann: map[string]string{"config-backend": c19Text(sn)}, Ports: []world.SvcPort{{Name: "http", Port: 80, Target: "8080"}}},
				&world.Obj{Kind: world.KEndpoints, NS: "a", Name: "s3", Subsets: []world.Subset{{Ready: []world.Addr{{IP: "10.1.3.1"}}, Ports: []world.SvcPort{{Name: "http", Port: 8080}}}}})
		}
	}
	return objs
}

func strictFirst(line string) string {
	s := strings.TrimLeft(line, " \t")
	if i := strings.IndexAny(s, " \t"); i >= 0 {
		return s[:i]
	}
	return s
}

func liberalFirst(line string) string {
	f := strings.FieldsFunc(line, func(r rune) bool { return strings.ContainsRune(" \t\n\v\f\r", r) })
	if len(f) == 0 {
		return ""
	}
	return f[0]
}

// c19Verdict: "drop" (must be dropped), "keep" (must be kept), "either".
func c19Verdict(keywords []string, sn C19Snippet) string {
	kw := map[string]bool{}
	for _, k := range keywords {
		if k == "*" {
			return "drop"
		}
		if k != "" {
			kw[k] = true
		}
	}
	text := c19Text(sn)
	mustDrop, mayDrop := false, false
	for _, line := range strings.Split(text, "\n") {
		// HAProxy splits words at any isspace() character (blank, tab, CR, VT, FF): a line whose first word in
		// that sense is a disabled keyword is that directive for HAProxy, whatever blanks surround it
		if kw[liberalFirst(line)] {
			mustDrop = true
			mayDrop = true
		}
	}
	switch {
	case mustDrop:
		return "drop"
	case !mayDrop:
		return "keep"
	}
	return "either"
}

// lineKey identifies a snippet line inside the parsed section (token sequence).
func lineKey(line string) string { return strings.Join(hapcfg.Tokenize(line), " ") }

var c19CLIMemo = struct {
	sync.Mutex
	m map[string][]string
}{m: map[string][]string{}}

// cliConfig runs the controller's own option handling (config.CreateWithConfig, against a local API endpoint that
// answers the only call it makes) for options changed by set, and returns the configuration the controller would run with.
func cliConfig(set func(*ctlconfig.Options)) (*ctlconfig.Config, error) {
	apiserver := httptest.NewServer(http.HandlerFunc(func(w http.ResponseWriter, r *http.Request) {
		w.Header().Set("Content-Type", "application/json")
		if strings.HasSuffix(r.URL.Path, "/services") {
			_, _ = w.Write([]byte(`{"kind":"ServiceList","apiVersion":"v1","metadata":{},"items":[]}`))
			return
		}
		w.WriteHeader(http.StatusNotFound)
		_, _ = w.Write([]byte(`{"kind":"Status","apiVersion":"v1","status":"Failure","reason":"NotFound","code":404}`))
	}))
	defer apiserver.Close()
	dir, err := os.MkdirTemp("", "clicfg")
	if err != nil {
		return nil, err
	}
	defer os.RemoveAll(dir)
	opt := ctlconfig.NewOptions()
	opt.UpdateStatus = false
	opt.WatchGateway = false
	opt.LocalFSPrefix = dir
	set(opt)
	return ctlconfig.CreateWithConfig(context.Background(), &rest.Config{Host: apiserver.URL}, opt)
}

// c19CLIKeywords gives the value of --disable-config-keywords to the controller's own option handling and returns
// the list it configures (config.Config.DisableKeywords, which services.go copies to the converters).
func c19CLIKeywords(value string) ([]string, error) {
	c19CLIMemo.Lock()
	defer c19CLIMemo.Unlock()
	if kws, ok := c19CLIMemo.m[value]; ok {
		return kws, nil
	}
	cfg, err := cliConfig(func(opt *ctlconfig.Options) { opt.DisableConfigKeywords = value })
	if err != nil {
		return nil, err
	}
	c19CLIMemo.m[value] = cfg.DisableKeywords
	return cfg.DisableKeywords, nil
}

func execC19(c C19Case) *Failure {
	st := getStats("C19")
	objs := c19World(c)
	params := ctlsim.Params{DisableKeywords: c.Keywords, Shards: c.Shards}
	if c.CLI != "" {
		kws, err := c19CLIKeywords(c.CLI)
		if err != nil {
			panic(err)
		}
		params.DisableKeywords = kws
		st.Count("deny_list_parsed_from_command_line", 1)
	}
	for _, sn := range c.Extra {
		if sn.On == "default-backend-service" {
			params.DefaultBackend = "a/s3"
		}
	}
	s, steps, err := freshSim(params, objs)
	if err != nil {
		panic(err)
	}
	defer s.Close()
	if e := stepErrors(steps); e != nil {
		return failf("C19:update-error", "%v", e)
	}
	cfg, _ := hapcfg.LoadDir(s.CfgDir())
	be := cfg.Backend("a_s1_8080")
	if be == nil {
		return failf("C19:no-backend", "backend a_s1_8080 was not written")
	}
	present := map[string]int{}
	for i, l := range be.Lines {
		present[strings.Join(l.Tok, " ")] = i + 1
	}
	verdicts := map[string]string{}
	nontrivial := false
	var emittedFrom []string
	uncountable := false
	for _, sn := range c.Snippets {
		v := c19Verdict(c.Keywords, sn)
		verdicts[sn.On] = v
		found, total := 0, 0
		for li, line := range sn.Lines {
			k := lineKey(line)
			if k == "" || !strings.Contains(k, " ") {
				continue // empty line, or a bare token that other snippets may hold as well
			}
			total++
			if present[k] > 0 {
				found++
			}
			if li > 0 && v == "drop" && strings.TrimLeft(line, " \t") != line {
				nontrivial = true
			}
		}
		if len(sn.Lines) >= 2 && v == "drop" {
			nontrivial = true
		}
		if total == 0 {
			uncountable = true // only bare tokens: presence cannot be attributed
		}
		if v == "drop" && found > 0 {
			return failf("C19:disabled-keyword-emitted", "keywords %q are disabled; the %s snippet %q must be dropped as a whole, but %d of its %d lines are in the backend section", c.Keywords, sn.On, c19Text(sn), found, total)
		}
		if found > 0 {
			emittedFrom = append(emittedFrom, sn.On)
			if found != total {
				return failf("C19:snippet-partially-emitted", "the %s snippet %q is only partially emitted (%d of %d lines)", sn.On, c19Text(sn), found, total)
			}
			// order preserved
			last := 0
			for _, line := range sn.Lines {
				if k := lineKey(line); k != "" && strings.Contains(k, " ") {
					if present[k] < last {
						return failf("C19:snippet-reordered", "the %s snippet %q is emitted in a different order", sn.On, c19Text(sn))
					}
					last = present[k]
				}
			}
		}
	}
	// snippets on backends without an http path: each is alone on its backend
	for _, sn := range c.Extra {
		name := map[string]string{"tcp-ingress": "a_s2_8080", "default-backend-service": "a_s3_8080"}[sn.On]
		be2 := cfg.Backend(name)
		if be2 == nil {
			return failf("C19:no-backend", "backend %s (%s) was not written", name, sn.On)
		}
		has := map[string]bool{}
		for _, l := range be2.Lines {
			has[strings.Join(l.Tok, " ")] = true
		}
		v := c19Verdict(c.Keywords, sn)
		verdicts[sn.On] = v
		found, total := 0, 0
		for _, line := range sn.Lines {
			if k := lineKey(line); k != "" {
				total++
				if has[k] {
					found++
				}
			}
		}
		if v == "drop" && found > 0 {
			return failf("C19:disabled-keyword-emitted", "keywords %q are disabled; the %s snippet %q must be dropped as a whole, but %d of its %d lines are in backend %s", c.Keywords, sn.On, c19Text(sn), found, total, name)
		}
		if v == "keep" && found != total {
			return failf("C19:clean-snippet-dropped", "keywords %q: the %s snippet %q has no disabled first token but only %d of its %d lines are in backend %s", c.Keywords, sn.On, c19Text(sn), found, total, name)
		}
		if v == "drop" {
			nontrivial = true
		}
	}
	// must keep: if every candidate is clean, a snippet must be there
	allKeep := true
	for _, sn := range c.Snippets {
		if verdicts[sn.On] != "keep" {
			allKeep = false
		}
	}
	if uncountable {
		allKeep = false
	}
	if allKeep && len(emittedFrom) == 0 {
		return failf("C19:clean-snippet-dropped", "keywords %q: no candidate snippet has a disabled first token, yet none was emitted: %+v", c.Keywords, c.Snippets)
	}
	if !uncountable && len(c.Snippets) == 1 && verdicts[c.Snippets[0].On] == "keep" && len(emittedFrom) != 1 {
		return failf("C19:clean-snippet-dropped", "keywords %q: the snippet %q has no disabled first token but was not emitted", c.Keywords, c19Text(c.Snippets[0]))
	}
	// global snippets are never filtered
	if len(c.Global) > 0 {
		got := map[string]bool{}
		for _, sec := range cfg.Sections {
			if sec.Kind == "defaults" || sec.Kind == "global" {
				for _, l := range sec.Lines {
					got[strings.Join(l.Tok, " ")] = true
				}
			}
		}
		for _, g := range append(append([]string{}, c.Global...), "tune.bufsize 16500") {
			if !got[lineKey(g)] {
				return failf("C19:global-snippet-filtered", "global ConfigMap snippet line %q is missing from the global/defaults sections (keywords %q)", g, c.Keywords)
			}
		}
	}
	labels := []string{}
	for on, v := range verdicts {
		labels = append(labels, "verdict-"+v, "on-"+on)
	}
	if len(c.Snippets) > 1 {
		labels = append(labels, "several-annotations-one-backend")
	}
	st.Case(c, nontrivial, dedup(labels)...)
	return nil
}

func init() { registerReplay("C19", execC19) }

func TestC19(t *testing.T) {
	runProperty(t, "C19", genC19, execC19)
}
