package props

import (
	"fmt"
	"reflect"
	"runtime"
	"sort"
	"strings"
	"sync"
	"testing"

	"pgregory.net/rapid"

	convtypes "github.com/jcmoraisjr/haproxy-ingress/pkg/converters/types"

	"verifharness/ctlsim"
	"verifharness/world"
)

// C14 — every Kubernetes event lands in exactly one reconciliation batch.

// C14Step is one event delivery or a batch swap.
type C14Step struct {
	Swap bool       `json:"swap,omitempty"`
	Ev   string     `json:"ev,omitempty"` // create, update, delete
	Old  *world.Obj `json:"old,omitempty"`
	Obj  *world.Obj `json:"obj,omitempty"`
}

// C14Case ...
type C14Case struct {
	Params ctlsim.Params `json:"params"`
	Steps  []C14Step     `json:"steps"`
	// concurrent part: how the events are spread over goroutines and how often the swapper yields
	Workers int `json:"workers,omitempty"`
}

var c14ResOf = map[string]string{
	world.KIngress: "Ingress", world.KIngressClass: "IngressClass", world.KService: "Service", world.KEndpoints: "Endpoints",
	world.KSecret: "Secret", world.KConfigMap: "ConfigMap", world.KPod: "Pod",
}

func genC14Obj(t *rapid.T, kind string, n int) *world.Obj {
	ns := rapid.SampledFrom([]string{"a", "b"}).Draw(t, "ns")
	o := &world.Obj{Kind: kind, NS: ns, Name: fmt.Sprintf("o%d", n), Gen: 1}
	switch kind {
	case world.KIngress:
		switch rapid.IntRange(0, 4).Draw(t, "class") {
		case 0, 1:
			o.ClassName = sp(world.OurClass)
		case 2:
			o.RawAnn = map[string]string{world.ClassAnn: world.OurClass}
		case 3:
			o.ClassName = sp("other")
		}
		o.Rules = []world.Rule{{Host: "h1.local", Paths: []world.Path{{Path: "/", Svc: "s1", Port: "80"}}}}
	case world.KIngressClass:
		o.NS = ""
		o.Controller = rapid.SampledFrom([]string{world.ControllerName, world.ControllerName, "example.com/x"}).Draw(t, "ctl")
	case world.KConfigMap:
		o.NS = world.CtlNS
		o.Name = rapid.SampledFrom([]string{"haproxy-ingress", "haproxy-ingress", "tcp-services", "unrelated"}).Draw(t, "cmname")
		o.Data = map[string]string{"k": rapid.SampledFrom([]string{"v1", "v2", "v3"}).Draw(t, "cmvalue")}
	case world.KService:
		o.Ports = []world.SvcPort{{Port: 80}}
	case world.KEndpoints:
		o.Subsets = []world.Subset{{Ready: []world.Addr{{IP: fmt.Sprintf("10.0.0.%d", n%250)}}, Ports: []world.SvcPort{{Port: 80}}}}
	case world.KSecret:
		o.SecretKind = "auth"
		o.Auth = "u::p"
	case world.KPod:
		o.PodIP = "10.9.9.9"
	}
	if kind != world.KEndpoints && kind != world.KConfigMap && kind != world.KIngressClass && chanceT(t, "svcnamelabel", 15) {
		// the label that names the Service of an EndpointSlice, on an object of another kind: it is just a label there,
		// the object is linked and described under its own name
		o.Labels = map[string]string{"kubernetes.io/service-name": "web"}
	}
	return o
}

func genC14(t *rapid.T) C14Case {
	c := C14Case{Params: ctlsim.Params{WatchWithoutClass: rapid.Bool().Draw(t, "wwc")}, Workers: rapid.IntRange(2, 8).Draw(t, "workers")}
	kinds := []string{world.KIngress, world.KIngress, world.KIngressClass, world.KService, world.KEndpoints, world.KSecret, world.KConfigMap, world.KConfigMap, world.KPod}
	n := rapid.IntRange(3, sizeScale(30, 60)).Draw(t, "nsteps")
	live := map[string]*world.Obj{}
	cnt := 0
	for i := 0; i < n; i++ {
		if chanceT(t, "swap", 20) {
			c.Steps = append(c.Steps, C14Step{Swap: true})
			continue
		}
		kind := rapid.SampledFrom(kinds).Draw(t, "kind")
		var keys []string
		for k, o := range live {
			if o.Kind == kind {
				keys = append(keys, k)
			}
		}
		sort.Strings(keys)
		if len(keys) == 0 || chanceT(t, "create", 40) {
			cnt++
			o := genC14Obj(t, kind, cnt)
			if _, exists := live[o.Key()]; exists {
				continue
			}
			live[o.Key()] = o
			c.Steps = append(c.Steps, C14Step{Ev: "create", Obj: o.Clone()})
			continue
		}
		cur := live[rapid.SampledFrom(keys).Draw(t, "target")]
		if chanceT(t, "delete", 25) {
			delete(live, cur.Key())
			c.Steps = append(c.Steps, C14Step{Ev: "delete", Obj: cur.Clone()})
			continue
		}
		cnt++
		nw := cur.Clone()
		switch kind {
		case world.KIngress:
			// change the classification and/or the spec
			nw.ClassName, nw.RawAnn = nil, nil
			switch rapid.IntRange(0, 4).Draw(t, "class") {
			case 0, 1:
				nw.ClassName = sp(world.OurClass)
			case 2:
				nw.RawAnn = map[string]string{world.ClassAnn: world.OurClass}
			case 3:
				nw.ClassName = sp("other")
			}
			nw.Gen++
		case world.KIngressClass:
			if nw.Controller == world.ControllerName {
				nw.Controller = "example.com/x"
			} else {
				nw.Controller = world.ControllerName
			}
			nw.Gen++
		case world.KConfigMap:
			// a small value alphabet: changes are often reverted (A -> B -> A), also inside one batch
			nw.Data = map[string]string{"k": rapid.SampledFrom([]string{"v1", "v2", "v3"}).Draw(t, "cmvalue")}
		case world.KService:
			if rapid.Bool().Draw(t, "svcspec") {
				nw.Gen++
				nw.Ports = []world.SvcPort{{Port: 80 + cnt%3}}
			} else {
				nw.Labels = map[string]string{"l": fmt.Sprint(cnt)} // filtered by the predicates
			}
		case world.KEndpoints:
			if rapid.Bool().Draw(t, "epchange") {
				nw.Subsets = []world.Subset{{Ready: []world.Addr{{IP: fmt.Sprintf("10.0.1.%d", cnt%250)}}, Ports: []world.SvcPort{{Port: 80}}}}
			}
		case world.KSecret:
			nw.Auth = fmt.Sprintf("u::p%d", cnt)
		case world.KPod:
			nw.Terminating = !nw.Terminating
		}
		live[nw.Key()] = nw
		c.Steps = append(c.Steps, C14Step{Ev: "update", Old: cur.Clone(), Obj: nw.Clone()})
	}
	c.Steps = append(c.Steps, C14Step{Swap: true})
	return c
}

// c14Batch is the model of one batch.
type c14Batch struct {
	Links   map[string][]string
	Objects []string
	Add     []string
	Upd     []string
	Del     []string
	GNew    map[string]string
	TNew    map[string]string
	Full    bool
}

func newC14Batch() *c14Batch { return &c14Batch{Links: map[string][]string{}} }

func addDedup(l []string, s string) []string {
	for _, x := range l {
		if x == s {
			return l
		}
	}
	return append(l, s)
}

// c14Env builds a sim whose API holds the IngressClasses of the steps delivered so far
// (IsValidIngress reads them through the cache).
type c14Env struct {
	s *ctlsim.Sim
}

func ingNames(l interface{}) []string {
	var out []string
	v := reflect.ValueOf(l)
	for i := 0; i < v.Len(); i++ {
		o := v.Index(i).Elem()
		out = append(out, o.FieldByName("Namespace").String()+"/"+o.FieldByName("Name").String())
	}
	return out
}

func c14Compare(k int, exp *c14Batch, got *convtypes.ChangedObjects, curG, curT map[string]string) *Failure {
	gotLinks := map[string][]string{}
	for r, l := range got.Links {
		gotLinks[string(r)] = l
	}
	for r, l := range exp.Links {
		if strings.Join(gotLinks[r], ",") != strings.Join(l, ",") {
			return failf("C14:links", "batch %d: links of %s are %v, the accepted events give %v", k, r, gotLinks[r], l)
		}
	}
	for r, l := range gotLinks {
		if len(exp.Links[r]) == 0 && len(l) > 0 {
			return failf("C14:links-extra", "batch %d: links of %s are %v, no accepted event of that kind in this batch", k, r, l)
		}
	}
	if strings.Join(got.Objects, "|") != strings.Join(exp.Objects, "|") {
		return failf("C14:objects", "batch %d: change descriptions are %v, the accepted events give %v", k, got.Objects, exp.Objects)
	}
	if a := ingNames(got.IngressesAdd); strings.Join(a, ",") != strings.Join(exp.Add, ",") {
		return failf("C14:ingresses-add", "batch %d: IngressesAdd %v, expected %v", k, a, exp.Add)
	}
	if a := ingNames(got.IngressesUpd); strings.Join(a, ",") != strings.Join(exp.Upd, ",") {
		return failf("C14:ingresses-upd", "batch %d: IngressesUpd %v, expected %v", k, a, exp.Upd)
	}
	if a := ingNames(got.IngressesDel); strings.Join(a, ",") != strings.Join(exp.Del, ",") {
		return failf("C14:ingresses-del", "batch %d: IngressesDel %v, expected %v", k, a, exp.Del)
	}
	if !reflect.DeepEqual(nilIfEmpty(got.GlobalConfigMapDataNew), nilIfEmpty(exp.GNew)) || (got.GlobalConfigMapDataNew == nil) != (exp.GNew == nil) {
		return failf("C14:configmap-new", "batch %d: GlobalConfigMapDataNew %v, expected %v", k, got.GlobalConfigMapDataNew, exp.GNew)
	}
	if !reflect.DeepEqual(got.GlobalConfigMapDataCur, curG) {
		return failf("C14:configmap-chain", "batch %d: GlobalConfigMapDataCur %v, but the previously delivered data is %v", k, got.GlobalConfigMapDataCur, curG)
	}
	if !reflect.DeepEqual(got.TCPConfigMapDataCur, curT) {
		return failf("C14:configmap-chain", "batch %d: TCPConfigMapDataCur %v, but the previously delivered data is %v", k, got.TCPConfigMapDataCur, curT)
	}
	if (got.TCPConfigMapDataNew == nil) != (exp.TNew == nil) || (exp.TNew != nil && !reflect.DeepEqual(got.TCPConfigMapDataNew, exp.TNew)) {
		return failf("C14:configmap-new", "batch %d: TCPConfigMapDataNew %v, expected %v", k, got.TCPConfigMapDataNew, exp.TNew)
	}
	return nil
}

func nilIfEmpty(m map[string]string) map[string]string {
	if len(m) == 0 {
		return nil
	}
	return m
}

// c14Apply delivers one event and updates the model of the current batch.
func c14Apply(s *ctlsim.Sim, st C14Step, b *c14Batch, mu *sync.Mutex) (accepted bool) {
	// the API (informer cache) is updated before the handlers run
	var oldK, newK = st.Old, st.Obj
	switch st.Ev {
	case "create", "update":
		s.Client.Put(newK.ToK8s())
	case "delete":
		s.Client.Remove(newK.ToK8s())
	}
	var ok8 = newK.ToK8s()
	accepted = false
	wasValid, isValid := false, false
	if st.Obj.Kind == world.KIngress && st.Ev == "update" {
		wasValid = refSelected(worldOfClient(s), s.P, oldK)
		isValid = refSelected(worldOfClient(s), s.P, newK)
	}
	if st.Ev == "update" {
		accepted = s.Watchers.Dispatch("update", oldK.ToK8s(), ok8)
	} else {
		accepted = s.Watchers.Dispatch(st.Ev, nil, ok8)
	}
	if !accepted || b == nil {
		return accepted
	}
	if mu != nil {
		mu.Lock()
		defer mu.Unlock()
	}
	res := c14ResOf[st.Obj.Kind]
	full := st.Obj.FullName()
	evName := map[string]string{"create": "add", "update": "update", "delete": "del"}[st.Ev]
	b.Links[res] = addDedup(b.Links[res], full)
	b.Objects = addDedup(b.Objects, fmt.Sprintf("%s/%s:%s", evName, res, full))
	switch st.Obj.Kind {
	case world.KIngress:
		switch st.Ev {
		case "create":
			b.Add = append(b.Add, full)
		case "delete":
			b.Del = append(b.Del, full)
		case "update":
			switch {
			case wasValid && isValid:
				b.Upd = append(b.Upd, full)
			case !wasValid && isValid:
				b.Add = append(b.Add, full)
			case wasValid && !isValid:
				b.Del = append(b.Del, full)
			}
		}
	case world.KConfigMap:
		if st.Ev != "delete" {
			switch full {
			case world.GlobalCM:
				b.GNew = st.Obj.Data
			case world.TCPCM:
				b.TNew = st.Obj.Data
			}
		}
	}
	return accepted
}

// worldOfClient: IngressClass objects currently in the API, for the reference class rule.
func worldOfClient(s *ctlsim.Sim) *world.World { return s.World }

// c14Handed is a batch that was already handed over and a copy of what it said at that moment.
type c14Handed struct {
	k       int
	got     *convtypes.ChangedObjects
	links   map[string][]string
	objects int
}

func c14CopyLinks(l convtypes.TrackingLinks) map[string][]string {
	out := map[string][]string{}
	for ctx, names := range l {
		if len(names) > 0 {
			out[string(ctx)] = append([]string(nil), names...)
		}
	}
	return out
}

func execC14(c C14Case) *Failure {
	st := getStats("C14")
	s, err := ctlsim.New(c.Params)
	if err != nil {
		panic(err)
	}
	defer s.Close()
	cur := newC14Batch()
	var curG, curT map[string]string
	k, swaps, cmEvents, transitions, accepted := 0, 0, 0, 0, 0
	emptyBatches := 0
	var handed []c14Handed
	for _, step := range c.Steps {
		if step.Swap {
			got := s.Watchers.GetChangedObjects()
			if f := c14Compare(k, cur, got, curG, curT); f != nil {
				return f
			}
			handed = append(handed, c14Handed{k: k, got: got, links: c14CopyLinks(got.Links), objects: len(got.Objects)})
			if len(cur.Objects) > 0 {
				swaps++
			} else {
				emptyBatches++
			}
			if cur.GNew != nil {
				curG = cur.GNew
			}
			if cur.TNew != nil {
				curT = cur.TNew
			}
			cur = newC14Batch()
			k++
			continue
		}
		// keep the reference world's IngressClasses in step with the API
		if step.Obj.Kind == world.KIngressClass {
			switch step.Ev {
			case "delete":
				delete(s.World.Objs, step.Obj.Key())
			default:
				s.World.Objs[step.Obj.Key()] = step.Obj.Clone()
			}
		}
		if c14Apply(s, step, cur, nil) {
			accepted++
			if step.Obj.Kind == world.KConfigMap {
				cmEvents++
			}
		}
		if step.Obj.Kind == world.KIngress && step.Ev == "update" && len(cur.Add)+len(cur.Del) > 0 {
			transitions++
		}
		// a batch that was handed over belongs to its reconciliation: events that are
		// accepted later land in the next batch only
		for _, h := range handed {
			if !reflect.DeepEqual(c14CopyLinks(h.got.Links), h.links) || len(h.got.Objects) != h.objects {
				return failf("C14:handed-batch-changed", "batch %d was handed over with links %v and %d change(s); after a later event (%s %s) it reads links %v and %d change(s)",
					h.k, h.links, h.objects, step.Ev, step.Obj.Key(), h.got.Links, len(h.got.Objects))
			}
		}
	}
	labels := []string{"sequential"}
	if emptyBatches > 0 {
		labels = append(labels, "empty-batch-taken")
	}
	if cmEvents >= 2 {
		labels = append(labels, "configmap-chain")
	}
	if transitions > 0 {
		labels = append(labels, "class-transition")
	}
	st.Case(c, swaps >= 2 && cmEvents >= 1, labels...)
	st.Count("events_accepted", accepted)
	st.Count("batches", k)
	return nil
}

// execC14Concurrent delivers the same events from several goroutines (one per
// kind group, as informers do) while another goroutine takes batches.
func execC14Concurrent(c C14Case) *Failure {
	st := getStats("C14")
	s, err := ctlsim.New(c.Params)
	if err != nil {
		panic(err)
	}
	defer s.Close()
	// IngressClasses first (sequentially): validity of ingresses must not change under the workers
	var events []C14Step
	for _, step := range c.Steps {
		if step.Swap {
			continue
		}
		if step.Obj.Kind == world.KIngressClass {
			if step.Ev != "delete" {
				s.World.Objs[step.Obj.Key()] = step.Obj.Clone()
				s.Client.Put(step.Obj.ToK8s())
			}
			continue
		}
		events = append(events, step)
	}
	// partition by object key so that the events of one object keep their order
	workers := c.Workers
	if workers < 2 {
		workers = 2
	}
	parts := make([][]C14Step, workers)
	for _, e := range events {
		h := 0
		for _, ch := range e.Obj.Kind {
			h = h*31 + int(ch)
		}
		parts[h%workers] = append(parts[h%workers], e)
	}
	expected := newC14Batch()
	var mu sync.Mutex
	var wg sync.WaitGroup
	var batches []*convtypes.ChangedObjects
	stop := make(chan struct{})
	swapDone := make(chan struct{})
	go func() {
		defer close(swapDone)
		for {
			select {
			case <-stop:
				return
			default:
			}
			b := s.Watchers.GetChangedObjects()
			if len(b.Objects) > 0 || b.GlobalConfigMapDataNew != nil || b.TCPConfigMapDataNew != nil {
				batches = append(batches, b)
			}
			runtime.Gosched()
		}
	}()
	for w := 0; w < workers; w++ {
		wg.Add(1)
		go func(part []C14Step) {
			defer wg.Done()
			for _, e := range part {
				c14Apply(s, e, expected, &mu)
				runtime.Gosched()
			}
		}(parts[w])
	}
	wg.Wait()
	close(stop)
	<-swapDone
	batches = append(batches, s.Watchers.GetChangedObjects())
	// conservation: every accepted event in exactly one batch
	seen := map[string]int{}
	nonEmpty := 0
	for _, b := range batches {
		if len(b.Objects) > 0 {
			nonEmpty++
		}
		for _, o := range b.Objects {
			seen[o]++
		}
	}
	// the same description can legitimately occur in two batches when the same object got the
	// same kind of event twice (update+update): count how often each was accepted at least once
	for _, o := range expected.Objects {
		if seen[o] == 0 {
			return failf("C14:event-lost", "concurrent delivery: accepted event %q is in no batch (%d batches taken)", o, len(batches))
		}
	}
	for o := range seen {
		found := false
		for _, e := range expected.Objects {
			if e == o {
				found = true
			}
		}
		if !found {
			return failf("C14:event-invented", "concurrent delivery: batch holds %q which was never accepted", o)
		}
	}
	// ingress lists: multiset conservation
	count := func(get func(b *convtypes.ChangedObjects) []string) map[string]int {
		m := map[string]int{}
		for _, b := range batches {
			for _, n := range get(b) {
				m[n]++
			}
		}
		return m
	}
	cmp := func(name string, got map[string]int, exp []string) *Failure {
		em := map[string]int{}
		for _, n := range exp {
			em[n]++
		}
		if !reflect.DeepEqual(got, em) && (len(got) > 0 || len(em) > 0) {
			return failf("C14:"+name, "concurrent delivery: %s over all batches %v, delivered %v", name, got, em)
		}
		return nil
	}
	if f := cmp("ingresses-add", count(func(b *convtypes.ChangedObjects) []string { return ingNames(b.IngressesAdd) }), expected.Add); f != nil {
		return f
	}
	if f := cmp("ingresses-upd", count(func(b *convtypes.ChangedObjects) []string { return ingNames(b.IngressesUpd) }), expected.Upd); f != nil {
		return f
	}
	if f := cmp("ingresses-del", count(func(b *convtypes.ChangedObjects) []string { return ingNames(b.IngressesDel) }), expected.Del); f != nil {
		return f
	}
	// ConfigMap chain across the batches in the order they were taken
	var curG map[string]string
	for i, b := range batches {
		if !reflect.DeepEqual(b.GlobalConfigMapDataCur, curG) {
			return failf("C14:configmap-chain", "concurrent delivery: batch %d sees GlobalConfigMapDataCur %v, previously delivered %v", i, b.GlobalConfigMapDataCur, curG)
		}
		if b.GlobalConfigMapDataNew != nil {
			curG = b.GlobalConfigMapDataNew
		}
	}
	st.Case(c, nonEmpty >= 2, "concurrent", fmt.Sprintf("concurrent-workers=%d", workers))
	st.Count("concurrent_batches_nonempty", nonEmpty)
	return nil
}

func init() {
	registerReplay("C14", execC14)
	registerReplay("C14C", execC14Concurrent)
}

func TestC14(t *testing.T) {
	runProperty(t, "C14", genC14, execC14)
}

func TestC14Concurrent(t *testing.T) {
	runPropertyAs(t, "C14", "C14C", genC14, execC14Concurrent)
}
