#!/usr/bin/env python3
"""Writes MANIFEST.json from checks_config.py + the claim table below (kept in one place so the manifest stays valid)."""
import json, os, sys
sys.path.insert(0, os.path.dirname(os.path.abspath(__file__)))
from checks_config import PROPS
from claims import CLAIMS, NOT_APPLICABLE, HOOK_COMMITS

base = json.load(open('/root/.vp/BASELINE.json'))
checks = []
for pid in sorted(CLAIMS):
    c = CLAIMS[pid]
    assert pid in PROPS, pid
    checks.append(dict(
        property_id=pid,
        quick_cmd="./check %s --tier quick" % pid,
        thorough_cmd="./check %s --tier thorough" % pid,
        evidence_file="evidence/%s.json" % pid,
        replay_cmd_template="./check %s --replay {path}" % pid,
        engine="verifharness",
        level_claimed=dict(category="exploration", text=c["text"], design_ref=c["design_ref"]),
        level_note=c["note"],
        technique=c["technique"],
    ))
m = dict(
    version=1,
    setup_cmd="cd harness && GOFLAGS=-mod=mod GOPROXY=off GOSUMDB=off GOTOOLCHAIN=local go test -tags verif -c -o /dev/null ./props",
    hooks=dict(
        guard="verif",
        enable="go build tag: the harness compiles /repo with `-tags verif` through a `replace` directive",
        baseline_off_cmd=base["cmd"],
        source_commits=HOOK_COMMITS,
        add_only=True,
    ),
    engines=[dict(name="verifharness", path="harness", serves_properties=sorted(CLAIMS), kind_free_text="Go module: rapid property-based tests over the real controller stages (watchers, cache facade, converters, haproxy instance) wired to an in-memory API client and a simulated HAProxy; driver ./check shards, merges evidence, replays saved cases")],
    checks=checks,
    notes="All checks are generated-input searches (pgregory.net/rapid v1.3.0) against explicit oracles; see DESIGN.md. Exit 2 = inconclusive (never a violation).",
    not_applicable=[dict(property_id=k, reason=v) for k, v in sorted(NOT_APPLICABLE.items()) if k not in CLAIMS],
)
json.dump(m, open(os.path.join(os.path.dirname(os.path.abspath(__file__)), 'MANIFEST.json'), 'w'), indent=1)
print("claimed:", sorted(CLAIMS), "not claimed:", [x['property_id'] for x in m['not_applicable']])
