#!/bin/bash
# development aid: ./devpar.sh <TestRegex> <checks> <firstseed> <nseeds> -- runs seeds in parallel, prints failures
export GOFLAGS=-mod=mod GOPROXY=off GOSUMDB=off GOTOOLCHAIN=local
T=$1; N=$2; S0=$3; NS=$4; shift 4
rm -rf /tmp/r/par; mkdir -p /tmp/r/par
cd /verif/harness && go test -tags verif -c -o /tmp/props.test ./props || exit 1
cd props
pids=""
for i in $(seq 0 $((NS-1))); do
  s=$((S0+i))
  VERIF_REPLAY_OUT=/tmp/r/par/s$s /tmp/props.test -test.run "$T" -rapid.checks=$N -rapid.nofailfile -rapid.seed=$s -rapid.shrinktime=30s -test.timeout 1500s "$@" > /tmp/r/par/out$s.txt 2>&1 &
  pids="$pids $!"
done
wait $pids
for i in $(seq 0 $((NS-1))); do
  s=$((S0+i))
  if grep -q "^VIOLATION\|^FAIL\|panic" /tmp/r/par/out$s.txt; then
    echo "=== seed $s"; grep -A 28 "infra_test.go:2[0-9][0-9]: VIOLATION" /tmp/r/par/out$s.txt | cut -c1-300 | head -40
    grep -q "infra_test.go:2[0-9][0-9]: VIOLATION" /tmp/r/par/out$s.txt || tail -30 /tmp/r/par/out$s.txt | cut -c1-300
  else
    echo "seed $s: $(tail -1 /tmp/r/par/out$s.txt)"
  fi
done
