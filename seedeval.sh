#!/bin/bash
# development aid: evaluate a sub-agent's seeded change.
#   seedeval.sh <dir with patch.diff + demo> <demo file name> <dest path of the demo inside the repo> <go test pkg of the demo> <check ids...>
# 1. the patch applies to /repo HEAD, compiles, the existing suite of ./pkg/... stays green
# 2. the demo fails with the change and passes without it
# 3. runs the given checks (quick tier) against the changed tree
export GOFLAGS=-mod=mod GOPROXY=off GOSUMDB=off GOTOOLCHAIN=local
dir=$1; demo=$2; dest=$3; pkg=$4; shift 4
wt=/tmp/wt-seed-$$
git -C /repo worktree add -q --detach $wt HEAD || exit 1
trap "git -C /repo worktree remove --force $wt" EXIT
cd $wt
if ! git apply $dir/patch.diff 2>/dev/null; then
  if ! git apply --3way $dir/patch.diff 2>/dev/null; then echo "RESULT patch does not apply to HEAD"; exit 1; fi
fi
git diff --stat HEAD | tail -1
go build ./pkg/... || { echo "RESULT does not compile"; exit 1; }
if go test -vet=off -count=1 ./pkg/... 2>&1 | grep -q "^FAIL\|^--- FAIL"; then echo "RESULT existing suite FAILS with the change"; go test -vet=off -count=1 ./pkg/... 2>&1 | grep "^FAIL\|^--- FAIL" | head -5; exit 1; else echo "suite green with the change"; fi
tags=""; grep -q "go:build verif" $dir/$demo && tags="-tags verif"
cp $dir/$demo $dest
if go test $tags -vet=off -count=1 $pkg -run . 2>&1 | grep -q "^--- FAIL\|^FAIL"; then echo "demo RED with the change (as claimed)"; else echo "RESULT demo does NOT fail with the change"; fi
git apply -R $dir/patch.diff 2>/dev/null || git checkout -q -- $(git diff --name-only HEAD)
if go test $tags -vet=off -count=1 $pkg -run . 2>&1 | grep -q "^--- FAIL\|^FAIL"; then echo "RESULT demo fails WITHOUT the change too"; else echo "demo GREEN without the change"; fi
rm -f $dest
git checkout -q -- .
git apply $dir/patch.diff 2>/dev/null || git apply --3way $dir/patch.diff
for id in "$@"; do
  VERIF_FAIL_DIR=/tmp/mutant-fails-$$ VERIF_EVIDENCE_DIR=/tmp/mutant-evidence-$$ VERIF_REPO=$wt /verif/check $id 2>&1 | grep -E "^VIOLATION|^C[0-9]+ quick|INCONCLUSIVE|detail" | cut -c1-330 | head -5
done
rm -rf /tmp/mutant-fails-$$ /tmp/mutant-evidence-$$
