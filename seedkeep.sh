#!/bin/bash
# seedkeep.sh <src dir> <seeded id> <property> <demo file> <demo dest> <caught-by> <needs (text)>
src=$1; id=$2; prop=$3; demo=$4; dest=$5; caught=$6; needs=$7
d=/verif/seeded/$id; mkdir -p $d
cp $src/patch.diff $d/patch.diff; cp $src/$demo $d/$demo; cp $src/README.md $d/AGENT_README.md
python3 - "$d" "$prop" "$demo" "$dest" "$caught" "$needs" <<'PY'
import json,sys
d,prop,demo,dest,caught,needs=sys.argv[1:7]
json.dump({
 "breaks_property": prop,
 "origin": "written by a sub-agent that saw only the property text and its own scratch worktree of /repo",
 "needs_to_manifest": needs,
 "demonstration": {"file": demo, "place_at": dest, "fails_with_change": True, "passes_without_change": True},
 "confirmed_by_me": ["patch applies to /repo HEAD", "go build ./pkg/... ok", "go test -vet=off -count=1 ./pkg/... green with the change", "demonstration red with the change, green without (seedeval.sh)"],
 "checks_run": "VERIF_REPO=<scratch worktree with the patch> ./check %s --tier quick" % prop,
 "caught_by": caught,
}, open(d+"/meta.json","w"), indent=1)
PY
echo kept $d
