#!/bin/bash
# development aid: ./mutant.sh <name> <patch-file|-> <check ids...>
# creates a scratch worktree of /repo HEAD, applies the patch (or runs the sed/python
# script given on stdin when the patch is "-"), runs the quick checks, removes the worktree.
name=$1; patch=$2; shift 2
wt=/tmp/wt-$name
git -C /repo worktree remove --force $wt 2>/dev/null
git -C /repo worktree add -q --detach $wt HEAD || exit 1
if [ "$patch" = "-" ]; then (cd $wt && bash -s) ; else git -C $wt apply "$patch" || { echo "patch does not apply"; git -C /repo worktree remove --force $wt; exit 1; }; fi
git -C $wt diff --stat | tail -1
for id in "$@"; do
  VERIF_EVIDENCE_DIR=/tmp/mutant-evidence VERIF_REPO=$wt /verif/check $id --tier ${TIER:-quick} ${SCALE:+--scale $SCALE} 2>&1 | grep -E "^VIOLATION|^C[0-9]+ (quick|thorough)|INCONCLUSIVE|detail" | cut -c1-400 | head -6
done
rm -f /verif/replays/*/fail-*.json
git -C /repo worktree remove --force $wt
