#!/bin/bash
# development aid: run checks (quick tier) against a seeded change, without the suite/demo steps of seedeval.sh
#   seedcheck.sh <dir with patch.diff> <check ids...>      (TIER=thorough for the deep tier)
export GOFLAGS=-mod=mod GOPROXY=off GOSUMDB=off GOTOOLCHAIN=local
dir=$1; shift
wt=/tmp/wt-sc-$$
git -C /repo worktree add -q --detach $wt HEAD || exit 1
trap "git -C /repo worktree remove --force $wt" EXIT
cd $wt
git apply $dir/patch.diff 2>/dev/null || git apply --3way $dir/patch.diff || { echo "RESULT patch does not apply"; exit 1; }
go build ./pkg/... || { echo "RESULT does not compile"; exit 1; }
for id in "$@"; do
  VERIF_KEEP_FAILS=1 VERIF_EVIDENCE_DIR=/tmp/mutant-evidence-$$ VERIF_REPO=$wt /verif/check $id ${TIER:+--tier $TIER} 2>&1 | grep -E "^VIOLATION|^C[0-9]+ (quick|thorough)|INCONCLUSIVE|detail" | cut -c1-400 | head -4
  rm -f /verif/replays/$id/fail-*.json /verif/replays/$id/race-*.txt
done
rm -rf /tmp/mutant-evidence-$$
