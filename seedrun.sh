#!/bin/bash
# development aid (several instances with different prefixes may run at the same time): run the quick checks named in seeded/<id>/meta.json ("checks") against every kept seeded change
# (scratch worktree of /repo HEAD outside /repo and /verif, removed afterwards) and write seeded/RESULTS.md.
#   seedrun.sh [id-prefix]
export GOFLAGS=-mod=mod GOPROXY=off GOSUMDB=off GOTOOLCHAIN=local
out=/verif/seeded/RESULTS.md
tmp=$(mktemp)
for d in /verif/seeded/${1}*/; do
  id=$(basename $d)
  [ -f $d/patch.diff ] || continue
  wt=/tmp/wt-seedrun-$$
  rm -rf $wt; git -C /repo worktree prune
  git -C /repo worktree add -q --detach $wt HEAD || exit 1
  if ! git -C $wt apply $d/patch.diff 2>/dev/null && ! git -C $wt apply --3way $d/patch.diff 2>/dev/null; then
    echo "| $id | patch does not apply to HEAD | |" >> $tmp; git -C /repo worktree remove --force $wt; continue
  fi
  res=""
  for c in $(python3 -c "import json;print(' '.join(json.load(open('$d/meta.json'))['checks']))"); do
    o=$(VERIF_FAIL_DIR=/tmp/mutant-fails-$$ VERIF_EVIDENCE_DIR=/tmp/mutant-evidence-$$ VERIF_REPO=$wt /verif/check $c 2>&1)
    sig=$(echo "$o" | grep -o "detail: VIOLATION[^:]*:: [^ ]*" | head -1 | sed 's/.*:: //')
    if echo "$o" | grep -q "^VIOLATION"; then res="$res $c: **caught** ($sig);"; elif echo "$o" | grep -q INCONCLUSIVE; then res="$res $c: inconclusive;"; else res="$res $c: quiet;"; fi
  done
  echo "| $id | $res |" | tee -a $tmp
  rm -rf /tmp/mutant-fails-$$ /tmp/mutant-evidence-$$
  git -C /repo worktree remove --force $wt
done
if [ -n "$SEEDRUN_LINES" ]; then
  # parallel run: only collect the table lines, the caller assembles RESULTS.md
  cat $tmp >> $SEEDRUN_LINES; rm -f $tmp; exit 0
fi
if [ -n "$1" ] && [ -f $out ]; then
  # partial run: replace the lines of the re-run changes in the existing table
  python3 - $out $tmp <<'PY'
import sys
out,tmp=sys.argv[1:3]
new={l.split('|')[1].strip():l for l in open(tmp) if l.startswith('|')}
lines=open(out).read().split('\n')
open(out,'w').write('\n'.join(new.pop(l.split('|')[1].strip(),l) if l.startswith('| ') and len(l.split('|'))>2 and l.split('|')[1].strip() in new else l for l in lines))
PY
fi
if [ -z "$1" ]; then
  { echo "# Seeded changes: result of the quick tier of the named checks (written by seedrun.sh against /repo $(git -C /repo rev-parse --short HEAD))"; echo; echo "| seeded change | quick checks |"; echo "|---|---|"; cat $tmp; } > $out
fi
rm -f $tmp
